"""Bounded abstract interpreter for the small hand-written leaf codecs (typed HIR from rsfacts).

Integers that steer control flow (counters, lengths, masks) are concrete; bytes that come from the wire or from a value being
written are abstract tokens carrying only an identity and a class (zero / non-zero / any). A reader is interpreted once per
*class of input* (e.g. "first NUL at position n" for n = 0..255, or one of the 256 packed-guid masks), which covers every
concrete input of that class at once: the token identities prove that the returned value is made of exactly the right wire
bytes in the right order, and the stream position proves how many bytes were consumed. Nothing is compiled or run; the
interpreter walks the HIR trees of the functions as rustc resolved them.
"""
import re
from . import hir as H

INT_BITS = {"u8": 8, "u16": 16, "u32": 32, "u64": 64, "u128": 128, "usize": 64, "i8": 8, "i16": 16, "i32": 32, "i64": 64, "i128": 128, "isize": 64}


class Unsupported(Exception):
    pass


class Panic(Exception):
    pass


class _Break(Exception):
    pass


class _Continue(Exception):
    pass


class _Return(Exception):
    def __init__(self, v):
        self.v = v


class Tok:
    """one abstract byte"""
    __slots__ = ("id", "cls")

    def __init__(self, id, cls):
        self.id, self.cls = id, cls

    def __repr__(self):
        return f"b{self.id}{'' if self.cls == 'any' else ':' + self.cls}"

    def __eq__(self, o):
        return isinstance(o, Tok) and o.id == self.id

    def __hash__(self):
        return hash(("tok", self.id))


class MTok:
    """an abstract byte AND-ed with a constant mask"""
    __slots__ = ("tok", "mask")

    def __init__(self, tok, mask):
        self.tok, self.mask = tok, mask

    def __repr__(self):
        return f"({self.tok!r}&{self.mask:#x})"

    def __eq__(self, o):
        return isinstance(o, MTok) and o.tok == self.tok and o.mask == self.mask

    def __hash__(self):
        return hash(("mtok", self.tok.id, self.mask))


class FDiff:
    """the difference of two independent generic float values: not zero and not small (the class 'two unrelated values')"""

    def __repr__(self):
        return "FDiff"


class Wide:
    """little-endian integer made of byte slots (concrete 0..255, Tok or MTok)"""
    __slots__ = ("slots",)

    def __init__(self, slots):
        self.slots = list(slots)

    def __repr__(self):
        return "Wide" + repr(self.slots)

    def __eq__(self, o):
        return isinstance(o, Wide) and self.slots == o.slots

    def __hash__(self):
        return hash(tuple(map(repr, self.slots)))


def to_wide(v, nbytes):
    if isinstance(v, Wide):
        s = v.slots[:nbytes]
        return Wide(s + [0] * (nbytes - len(s)))
    if isinstance(v, (Tok, MTok)):
        return Wide([v] + [0] * (nbytes - 1))
    if isinstance(v, int):
        return Wide([(v >> (8 * i)) & 0xFF for i in range(nbytes)])
    raise Unsupported(f"cannot widen {v!r}")


def norm(v):
    """a Wide whose slots are all concrete is an ordinary integer"""
    if isinstance(v, Wide) and all(isinstance(x, int) for x in v.slots):
        return sum(x << (8 * i) for i, x in enumerate(v.slots))
    return v


def nonzero(v):
    """truth of v != 0, or None when undetermined"""
    if isinstance(v, bool):
        return v
    if isinstance(v, int):
        return v != 0
    if isinstance(v, Tok):
        return {"z": False, "nz": True}.get(v.cls)
    if isinstance(v, Wide):
        r = False
        for s in v.slots:
            nz = nonzero(s)
            if nz is True:
                return True
            if nz is None:
                r = None
        return r
    raise Unsupported(f"truth of {v!r}")


class Stream:
    def __init__(self, toks):
        self.toks = list(toks)
        self.pos = 0

    def take(self, n):
        if self.pos + n > len(self.toks):
            self.pos = len(self.toks)
            return None
        out = self.toks[self.pos:self.pos + n]
        self.pos += n
        return out


class Iter:
    """stateful iterator over a precomputed list"""
    def __init__(self, items):
        self.items = list(items)
        self.pos = 0

    def next(self):
        if self.pos >= len(self.items):
            return "None"
        v = self.items[self.pos]
        self.pos += 1
        return ("Some", v)

    def rest(self):
        r = self.items[self.pos:]
        self.pos = len(self.items)
        return r


class LazyIter:
    """an iterator that produces its items on demand by calling a closure (std::iter::repeat_with), optionally limited by take(n)"""

    def __init__(self, mini, clo, limit=None):
        self.mini, self.clo, self.limit, self.count = mini, clo, limit, 0

    def next(self):
        if self.limit is not None and self.count >= self.limit:
            return "None"
        self.count += 1
        return ("Some", self.mini.apply(self.clo, []))

    def __iter__(self):
        while True:
            v = self.next()
            if v == "None":
                return
            yield v[1]


class BTree:
    """BTreeMap with concrete integer keys"""
    def __init__(self):
        self.d = {}

    def items(self):
        return [(k, self.d[k]) for k in sorted(self.d)]

    def __repr__(self):
        return "BTree" + repr(self.items())


class HMap:
    """HashMap with concrete keys (ints, strings, tuples); iteration order is deliberately unavailable"""
    def __init__(self):
        self.d = {}

    @staticmethod
    def key(k):
        """hashable structural form of a concrete key: derived Hash / Eq compare all fields"""
        if isinstance(k, Ref):
            k = k.get()
        if isinstance(k, (list, tuple)):
            return tuple(HMap.key(x) for x in k)
        if isinstance(k, dict):
            return tuple(sorted((f, HMap.key(v)) for f, v in k.items()))
        if isinstance(k, (int, str)) or k is None:
            return k
        raise Unsupported(f"abstract HashMap key {k!r}")

    def __repr__(self):
        return "HMap" + repr(self.d)


class Ref:
    """a reference to one element of a list (for `for x in &mut slice { *x = .. }`)"""
    __slots__ = ("lst", "i")

    def __init__(self, lst, i):
        self.lst, self.i = lst, i

    def get(self):
        return self.lst[self.i]


class Sink:
    def __init__(self):
        self.out = []


class Mini:
    def __init__(self, facts_by_crate, crate):
        self.FB = facts_by_crate  # crate name -> Facts
        self.crate = crate
        self.depth = 0
        self.steps = 0

    def default_of(self, ty, depth):
        """the value of `<ty as Default>::default()` for std collections, integers, bool, Option and structs that derive it (a struct
        of this crate without a hand-written `impl Default`: every field its type's default) -> (value,) or None"""
        ty = (ty or "").strip()
        if depth > 4:
            return None
        if ty.startswith(("std::vec::Vec", "std::collections::VecDeque", "std::collections::btree::set::BTreeSet", "std::collections::BTreeSet", "std::string::String")):
            return ([],)
        if ty.startswith(("std::collections::btree::map::BTreeMap", "std::collections::BTreeMap")):
            return (BTree(),)
        if ty.startswith(("std::collections::HashMap", "std::collections::hash::map::HashMap")):
            return (HMap(),)
        if ty.startswith(("std::option::Option", "Option<")):
            return ("None",)
        if ty in INT_BITS:
            return (0,)
        if ty == "bool":
            return (False,)
        base = re.sub(r"<.*$", "", ty)
        F = self.FB.get(self.crate)
        a = F.adt(base) if F is not None and base.startswith("crate::") else None
        if a is not None and a["kind"] == "Struct":
            for im in F.impls():
                if (im.get("trait") or "").endswith("default::Default") and re.sub(r"<.*$", "", im.get("self_ty") or "") == base and any(it[0] == "fn" and F.fn(it[2]) is not None and F.fn(it[2]).get("hir") is not None and not F.fn(it[2]).get("derived") for it in im["items"]):
                    # a Default impl with a body of its own (hand-written, or a derive whose expansion is available): interpret that
                    for it in im["items"]:
                        if it[0] == "fn" and it[1] == "default":
                            return (self.call_fn(it[2], []),)
            fields = {}
            for fname, fty in a["variants"][0][2]:
                d = self.default_of(fty, depth + 1)
                if d is None:
                    return None
                fields[fname] = d[0]
            return (("struct", base, fields),)
        return None

    # ---- function lookup across crates ---------------------------------------------------------------------
    def find_fn(self, path, crate):
        if path.startswith("crate::"):
            F = self.FB.get(crate)
            r = F.fn(path) if F else None
            return (r, crate) if r else (None, None)
        if path.startswith("<"):
            for cname, F in self.FB.items():
                if path.startswith("<" + cname + "::"):
                    r = F.fn(path.replace(cname + "::", "crate::"))
                    if r:
                        return r, cname
            F = self.FB.get(crate)
            r = F.fn(path) if F else None
            return (r, crate) if r else (None, None)
        head = path.split("::", 1)[0]
        F = self.FB.get(head)
        if F is not None:
            r = F.fn("crate::" + path.split("::", 1)[1])
            if r:
                return r, head
        return None, None

    generic_lits = None

    def call_fn(self, path, args, crate=None, gargs=None):
        crate = crate or self.crate
        if not hasattr(self, "gstack"):
            self.gstack = []
        if self.generic_lits is None:
            self.generic_lits = set()
        for suffix, f in getattr(self, "overrides", {}).items():
            if path.endswith(suffix):
                return f(args)
        r, c2 = self.find_fn(path, crate)
        if r is None or r.get("hir") is None:
            raise Unsupported(f"no body for {path}")
        if self.depth > 16:
            raise Unsupported("call depth")
        env = [{}]
        ps = r["params"]
        if len(ps) != len(args):
            raise Unsupported(f"arity {path}")
        for p, a in zip(ps, args):
            self.bind(p, a, env)
        self.depth += 1
        old = self.crate
        self.crate = c2
        self.gstack.append([int(x) for x in (gargs or []) if isinstance(x, str) and x.isdigit()])
        try:
            return self.ev(H.unwrap_async(r["hir"]), env)
        except _Return as e:
            return e.v
        except (TypeError, KeyError, IndexError, AttributeError, ValueError) as e:
            # a value shape the interpreter has no model for: report it like any other unsupported construct, so that
            # the calling rule says "not interpretable - review" instead of the whole check dying with a tool error
            raise Unsupported(f"value shape not modelled in {path.split('::')[-1]} ({type(e).__name__}: {e})")
        finally:
            self.crate = old
            self.depth -= 1
            self.gstack.pop()

    def canon(self, p):
        """crate-qualified spelling of a def path (facts of crate X spell their own items `crate::...`)"""
        if p.startswith("Self:"):
            p = p[5:]
        if p.startswith("crate::"):
            return self.crate + "::" + p[7:]
        return p

    # ---- env -------------------------------------------------------------------------------------------------
    def lookup(self, env, k):
        for fr in reversed(env):
            if k in fr:
                return fr[k]
        raise Unsupported(f"unbound {k}")

    def setvar(self, env, k, v):
        for fr in reversed(env):
            if k in fr:
                fr[k] = v
                return
        raise Unsupported(f"assignment to unbound {k}")

    def bind(self, pat, v, env):
        t = H.tag(pat)
        if isinstance(v, Ref) and t != "bind":
            v = v.get()
        if t == "bind":
            if pat[5] is not None and not self.bind(pat[5], v, env):
                return False
            env[-1][pat[1]] = v
            return True
        if t == "wild":
            return True
        if t in ("pref", "pderef"):
            return self.bind(pat[1], v, env)
        if t == "pslice":
            before, mid, after = pat[1], pat[2], pat[3]
            if not isinstance(v, list):
                raise Unsupported("slice pattern on a value that is not an array")
            if mid is None and len(v) != len(before) + len(after):
                return False
            if len(v) < len(before) + len(after):
                return False
            ok = all(self.bind(q, x, env) for q, x in zip(before, v[:len(before)]))
            ok = ok and all(self.bind(q, x, env) for q, x in zip(after, v[len(v) - len(after):] if after else []))
            if ok and mid is not None:
                ok = self.bind(mid, v[len(before):len(v) - len(after)], env)
            return ok
        if t == "ptup":
            if not isinstance(v, tuple) or len(v) != len(pat[1]):
                raise Unsupported("tuple pattern")
            return all(self.bind(p, x, env) for p, x in zip(pat[1], v))
        if t == "lit":
            if isinstance(v, Tok):
                if pat[1] == "int" and int(pat[2]) == 0:
                    nz = nonzero(v)
                    if nz is None:
                        raise Unsupported("match of an unclassified byte against 0")
                    return not nz
                if v.cls == "z":
                    return False
                raise Unsupported(f"match of abstract byte against literal {pat[2]}")
            if pat[1] == "int":
                return v == int(pat[2])
            if pat[1] == "bool":
                return v == (pat[2] == "true")
            if pat[1] == "str" and isinstance(v, str):
                return v == pat[2]
            raise Unsupported("literal pattern")
        if t in ("ts", "ps"):
            name = pat[1].split("::")[-1]
            if name in ("Some", "Ok", "Err"):
                if isinstance(v, tuple) and len(v) == 2 and v[0] == name:
                    sub = pat[2][0] if t == "ts" else pat[2][0][1]
                    return self.bind(sub, v[1], env)
                return False
            if isinstance(v, tuple) and v and v[0] == "variant" and len(v) == 3 and t == "ts":
                if self.canon(v[1]) != self.canon(pat[1]):
                    return False
                return all(self.bind(sp, sv, env) for sp, sv in zip(pat[2], v[2]))
            if isinstance(v, tuple) and v and v[0] == "struct" and t == "ps":
                a, b = self.canon(v[1]), self.canon(pat[1])
                if a != b and a.rsplit("::", 1)[0] == b.rsplit("::", 1)[0] and not a.startswith("Self") and not b.startswith("Self"):
                    return False  # another struct-like variant of the same enum
                return all(self.bind(sp, v[2][fn], env) for fn, sp in pat[2])
            if isinstance(v, tuple) and v and v[0] == "variant":
                return False
            if isinstance(v, tuple) and v and v[0] == "struct" and t == "ts" and isinstance(v[1], str):
                a, b = self.canon(v[1]), self.canon(pat[1])
                if a != b and a.rsplit("::", 1)[0] == b.rsplit("::", 1)[0]:
                    return False  # a struct-like variant of the same enum against a tuple-variant pattern
            raise Unsupported(f"pattern {pat[1]}")
        if t == "ppath":
            name = pat[1].split("::")[-1]
            if pat[1] == "std::option::Option::None":
                return v == "None"
            if isinstance(v, tuple) and v and v[0] == "variant":
                return self.canon(v[1]) == self.canon(pat[1])
            if v == "None":
                return False
            if isinstance(v, tuple) and v and v[0] == "struct" and isinstance(v[1], str) and self.canon(v[1]).rsplit("::", 1)[0] == self.canon(pat[1]).rsplit("::", 1)[0]:
                return self.canon(v[1]) == self.canon(pat[1])
            if isinstance(v, (str, int)) and not isinstance(v, bool):
                try:
                    cv = self.const(pat[1])
                except Unsupported:
                    cv = None
                if cv is not None and isinstance(cv, type(v)):
                    return cv == v  # a constant used as a pattern
            raise Unsupported(f"path pattern {pat[1]}")
        if t == "por":
            return any(self.bind(p, v, env) for p in pat[1])
        if t == "prange":
            if isinstance(v, int):
                lo = int(pat[1][2]) if pat[1] else None
                hi = int(pat[2][2]) if pat[2] else None
                incl = "Included" in pat[3]
                return (lo is None or v >= lo) and (hi is None or (v <= hi if incl else v < hi))
        raise Unsupported(f"pattern {t}")

    # ---- arithmetic --------------------------------------------------------------------------------------------
    def wrapchk(self, v, ty, what):
        if ty in INT_BITS and isinstance(v, int) and not isinstance(v, bool):
            bits = INT_BITS[ty]
            if ty.startswith("u"):
                if v < 0 or v >= (1 << bits):
                    raise Panic(f"arithmetic overflow in `{what}` ({ty})")
            elif v < -(1 << (bits - 1)) or v >= (1 << (bits - 1)):
                raise Panic(f"arithmetic overflow in `{what}` ({ty})")
        return v

    def binop(self, op, a, b, ty):
        return norm(self.binop0(op, a, b, ty))

    def binop0(self, op, a, b, ty):
        if op in ("And", "Or"):
            raise Unsupported("lazy bool handled elsewhere")
        if op in ("Lt", "Le", "Gt", "Ge") and (isinstance(a, FDiff) or isinstance(b, FDiff)):
            x, y, o = (a, b, op) if isinstance(a, FDiff) else (b, a, {"Lt": "Gt", "Le": "Ge", "Gt": "Lt", "Ge": "Le"}[op])
            if isinstance(y, (int, float)) and not isinstance(y, bool) and 0 <= y <= 1e-3:
                return o in ("Gt", "Ge")  # |difference of unrelated values| against a tolerance
            raise Unsupported("comparison of a generic float difference")
        if op in ("Eq", "Ne", "Lt", "Le", "Gt", "Ge"):
            if isinstance(a, (Tok, Wide)) or isinstance(b, (Tok, Wide)):
                other = b if isinstance(a, (Tok, Wide)) else a
                sym = a if isinstance(a, (Tok, Wide)) else b
                if isinstance(other, int) and other == 0 and op in ("Eq", "Ne"):
                    nz = nonzero(sym)
                    if nz is None:
                        raise Unsupported(f"comparison of unclassified {sym!r} with 0")
                    return nz if op == "Ne" else not nz
                if isinstance(other, (Tok, Wide)) and op in ("Eq", "Ne") and sym == other:
                    return op == "Eq"
                if getattr(self, "generic_ne", False) and op in ("Eq", "Ne") and isinstance(other, (int, float)) and not isinstance(other, bool) and other != 0:
                    # the "generic value" class: a value different from every literal the code compares it with
                    self.generic_lits.add(other)
                    return op == "Ne"
                raise Unsupported(f"comparison {a!r} {op} {b!r}")
            try:
                if op == "Eq":
                    return a == b
                if op == "Ne":
                    return a != b
                return {"Lt": lambda: a < b, "Le": lambda: a <= b, "Gt": lambda: a > b, "Ge": lambda: a >= b}[op]()
            except TypeError:
                raise Unsupported(f"comparison {op} of {type(a).__name__} and {type(b).__name__}")
        nbytes = INT_BITS.get(ty, 64) // 8
        if isinstance(a, (Tok, Wide, MTok)) or isinstance(b, (Tok, Wide, MTok)):
            if op == "Shl" and isinstance(b, int):
                w = to_wide(a, nbytes)
                if b % 8 != 0:
                    raise Unsupported("shift of abstract bytes by a non-multiple of 8")
                k = b // 8
                return Wide(([0] * k + w.slots)[:nbytes])
            if op == "Shr" and isinstance(b, int) and b % 8 == 0:
                w = to_wide(a, nbytes)
                k = b // 8
                return Wide((w.slots[k:] + [0] * k)[:nbytes])
            if op == "Sub" and ty in ("f32", "f64") and isinstance(a, Wide) and isinstance(b, Wide) and a != b and not (set(map(repr, a.slots)) & set(map(repr, b.slots))):
                return FDiff()
            if op == "Sub" and type(a) is type(b) and a == b:
                # the difference of a value and itself (for a float: of a finite value and itself)
                return 0.0 if ty in ("f32", "f64") else 0
            if op in ("BitOr", "BitXor", "Add"):
                x, y = to_wide(a, nbytes), to_wide(b, nbytes)
                out = []
                for s, t2 in zip(x.slots, y.slots):
                    if s == 0:
                        out.append(t2)
                    elif t2 == 0:
                        out.append(s)
                    elif isinstance(s, int) and isinstance(t2, int) and op == "BitOr":
                        out.append(s | t2)
                    else:
                        raise Unsupported(f"{op} of two non-zero abstract bytes")
                return Wide(out)
            if op == "BitAnd":
                x, y = (a, b) if isinstance(b, int) else (b, a)
                if isinstance(y, int):
                    w = to_wide(x, nbytes)
                    out = []
                    for i, s in enumerate(w.slots):
                        m = (y >> (8 * i)) & 0xFF
                        if m == 0xFF:
                            out.append(s)
                        elif m == 0:
                            out.append(0)
                        elif isinstance(s, int):
                            out.append(s & m)
                        elif isinstance(s, Tok):
                            out.append(MTok(s, m))
                        elif isinstance(s, MTok):
                            out.append(MTok(s.tok, s.mask & m))
                        else:
                            raise Unsupported("partial mask of an abstract byte")
                    if isinstance(x, (Tok, MTok)) and nbytes == 1:
                        return out[0]
                    return Wide(out)
            raise Unsupported(f"{op} on abstract values {a!r}, {b!r}")
        if isinstance(a, bool) or isinstance(b, bool):
            if op == "BitAnd":
                return a and b
            if op == "BitOr":
                return a or b
            raise Unsupported("bool arithmetic")
        if op == "Add":
            return self.wrapchk(a + b, ty, "+")
        if op == "Sub":
            return self.wrapchk(a - b, ty, "-")
        if op == "Mul":
            return self.wrapchk(a * b, ty, "*")
        if op == "Div":
            if b == 0:
                raise Panic("division by zero")
            return int(a / b) if (a < 0) != (b < 0) else a // b
        if op == "Rem":
            if b == 0:
                raise Panic("remainder by zero")
            return a - b * (int(a / b) if (a < 0) != (b < 0) else a // b)
        if op == "Shl":
            if b < 0 or b >= INT_BITS.get(ty, 64):
                raise Panic("shift overflow")
            return (a << b) & ((1 << INT_BITS.get(ty, 64)) - 1)
        if op == "Shr":
            if b < 0 or b >= INT_BITS.get(ty, 64):
                raise Panic("shift overflow")
            return a >> b
        if op == "BitAnd":
            return a & b
        if op == "BitOr":
            return a | b
        if op == "BitXor":
            return a ^ b
        raise Unsupported(f"operator {op}")

    def cast(self, v, frm, to):
        return norm(self.cast0(v, frm, to))

    def cast0(self, v, frm, to):
        if to.startswith(("*const", "*mut")):
            return v  # pointer casts keep the object (identity is what std::ptr::eq compares)
        if to in INT_BITS and isinstance(v, tuple) and len(v) == 2 and v[0] == "variant" and isinstance(v[1], str):
            # a fieldless enum variant cast to an integer: its discriminant (from the ADT facts)
            ty, _, var = self.canon(v[1]).rpartition("::")
            for cname, F in self.FB.items():
                for cand in (ty, "crate::" + ty.split("::", 1)[1] if ty.split("::", 1)[0] == cname and "::" in ty else ty):
                    adt = F.adt(cand)
                    if adt is not None and adt["kind"] == "Enum":
                        for vr in adt["variants"]:
                            if vr[0] == var and not vr[2]:
                                return self.cast0(int(vr[1]), "i128", to)
            raise Unsupported(f"cast of {v[1]} to {to}: discriminant unknown")
        if to in INT_BITS:
            if isinstance(v, bool):
                return int(v)
            if isinstance(v, float):
                # Rust `as`: truncation toward zero, saturating, NaN -> 0
                bits = INT_BITS[to]
                lo, hi = (-(1 << (bits - 1)), (1 << (bits - 1)) - 1) if to.startswith("i") else (0, (1 << bits) - 1)
                if v != v:
                    return 0
                return max(lo, min(hi, int(v))) if abs(v) != float("inf") else (hi if v > 0 else lo)
            if isinstance(v, int):
                bits = INT_BITS[to]
                v &= (1 << bits) - 1
                if to.startswith("i") and v >= (1 << (bits - 1)):
                    v -= 1 << bits
                return v
            if isinstance(v, (Tok, MTok)):
                return v if INT_BITS[to] == 8 else to_wide(v, INT_BITS[to] // 8)
            if isinstance(v, Wide):
                return to_wide(v, INT_BITS[to] // 8) if INT_BITS[to] > 8 else v.slots[0]
        if to in ("f32", "f64") and isinstance(v, (int, float)) and not isinstance(v, bool):
            import struct
            return struct.unpack("<f", struct.pack("<f", float(v)))[0] if to == "f32" else float(v)
        raise Unsupported(f"cast {frm} -> {to} of {v!r}")

    # ---- expressions ---------------------------------------------------------------------------------------------
    def truth(self, v):
        if isinstance(v, bool):
            return v
        raise Unsupported(f"condition value {v!r}")

    def ev(self, n, env):
        self.steps += 1
        if self.steps > 2_000_000:
            raise Unsupported("step budget exceeded (non-terminating loop?)")
        mac = None
        while H.tag(n) == "mac":
            mac = n[1]
            n = n[2]
        if mac in ("panic", "unreachable", "unimplemented", "todo"):
            raise Panic(f"{mac}!")
        if mac in ("format", "format_args"):
            return "<formatted text>"  # message texts are not part of any decided clause
        if mac in ("eprintln", "println", "eprint", "print"):
            return ()
        t = H.tag(n)
        if t == "lit":
            if n[1] == "int":
                return int(n[2])
            if n[1] == "bool":
                return n[2] == "true"
            if n[1] == "float":
                try:
                    return float(n[2].replace("_", "").replace("f32", "").replace("f64", ""))
                except ValueError:
                    pass
            if n[1] == "str":
                return n[2]
            return ("lit", n[2])
        if t == "local":
            v = self.lookup(env, n[1])
            return v.get() if isinstance(v, Ref) else v
        if t in ("ref", "refmut"):
            return self.ev(n[1], env)
        if t == "un":
            v = self.ev(n[4], env)
            if n[2] == "Deref":
                return v
            if n[2] == "Not":
                if isinstance(v, bool):
                    return not v
                if isinstance(v, int):
                    return ~v & ((1 << INT_BITS.get(n[3], 64)) - 1)
            if n[2] == "Neg" and isinstance(v, int):
                return -v
            raise Unsupported(f"unary {n[2]} on {v!r}")
        if t == "cast":
            return self.cast(self.ev(n[4], env), n[2], n[3])
        if t == "bin":
            op = n[2]
            if op == "And":
                return self.truth(self.ev(n[4], env)) and self.truth(self.ev(n[5], env))
            if op == "Or":
                return self.truth(self.ev(n[4], env)) or self.truth(self.ev(n[5], env))
            return self.binop(op, self.ev(n[4], env), self.ev(n[5], env), n[3])
        if t == "quote":
            return n[1]
        if t == "path":
            p, kind = n[1], n[2]
            if "Ctor(Variant, Const)" in kind:
                return "None" if p == "std::option::Option::None" else ("variant", self.canon(p))
            if "Const" in kind:
                r = self.const(p)
                if r is not None:
                    return r
            if "Fn" in kind:
                return ("fn", p, kind, n[3] if len(n) > 3 else [])
            raise Unsupported(f"path {p}")
        if t == "tup":
            return tuple(self.ev(x, env) for x in n[1])
        if t == "array":
            return [self.ev(x, env) for x in n[1]]
        if t == "repeat":
            ty = n[1]
            ctok = ty.rsplit(";", 1)[1].strip(" ]")
            if ctok.isdigit():
                cnt = int(ctok)
            else:
                # a const generic parameter: the function was called with exactly one numeric generic argument
                nums = self.gstack[-1] if getattr(self, "gstack", None) else []
                if len(nums) != 1:
                    raise Unsupported(f"array length {ctok}")
                cnt = nums[0]
            v = self.ev(n[2], env)
            return [v] * cnt
        if t == "struct":
            if n[1].endswith("ops::range::Range") or n[1].endswith("ops::Range"):
                f = {k: self.ev(v, env) for k, v in n[2]}
                return ("range", f["start"], f["end"])
            if n[1].endswith("ops::range::RangeTo") or n[1].endswith("ops::RangeTo"):
                f = {k: self.ev(v, env) for k, v in n[2]}
                return ("range", 0, f["end"])
            if n[1].endswith("RangeToInclusive"):
                f = {k: self.ev(v, env) for k, v in n[2]}
                if isinstance(f["end"], int):
                    return ("range", 0, f["end"] + 1)
            if n[1].endswith("ops::range::RangeFrom") or n[1].endswith("ops::RangeFrom"):
                f = {k: self.ev(v, env) for k, v in n[2]}
                return ("rangefrom", f["start"])
            if n[1].endswith("RangeInclusive"):
                raise Unsupported("RangeInclusive literal")
            return ("struct", n[1], {k: self.ev(v, env) for k, v in n[2]})
        if t == "field":
            b = self.ev(n[1], env)
            if isinstance(b, Ref):
                b = b.get()
            if isinstance(b, tuple) and b and b[0] == "struct":
                if n[2] not in b[2]:
                    raise Unsupported(f"field {n[2]} of {b[1]} not modelled")
                return b[2][n[2]]
            if isinstance(b, tuple) and n[2].isdigit():
                return b[int(n[2])]
            raise Unsupported(f"field {n[2]} of {b!r}")
        if t == "idx":
            b = self.ev(n[3], env)
            i = self.ev(n[4], env)
            if isinstance(b, Ref):
                b = b.get()
            if isinstance(i, Ref):
                i = i.get()
            if isinstance(b, BTree) and isinstance(i, int) and not isinstance(i, bool):
                if i not in b.d:
                    raise Panic(f"BTreeMap index: no entry for key {i}")
                return b.d[i]
            if isinstance(b, list):
                if isinstance(i, int):
                    if i < 0 or i >= len(b):
                        raise Panic(f"index {i} out of bounds (len {len(b)})")
                    return b[i]
                if isinstance(i, tuple) and i[0] == "rangefrom" and isinstance(i[1], int):
                    i = ("range", i[1], len(b))
                if isinstance(i, tuple) and i[0] == "rangeincl" and isinstance(i[1], int) and isinstance(i[2], int):
                    i = ("range", i[1], i[2] + 1)
                if isinstance(i, tuple) and i[0] == "range" and isinstance(i[1], int) and isinstance(i[2], int):
                    if i[1] > i[2] or i[2] > len(b):
                        raise Panic(f"slice {i[1]}..{i[2]} out of bounds (len {len(b)})")
                    return b[i[1]:i[2]]
                if H.tag(H.strip(n[4])) == "path" and "RangeFull" in H.strip(n[4])[1]:
                    return b
            raise Unsupported(f"index {b!r}[{i!r}]")
        if t == "block":
            env.append({})
            try:
                for st in n[1]:
                    self.stmt(st, env)
                return self.ev(n[2], env) if n[2] is not None else ()
            finally:
                env.pop()
        if t == "if":
            c = H.strip(n[1])
            if H.tag(c) == "letexpr":
                env.append({})
                try:
                    if self.bind(c[1], self.ev(c[2], env), env):
                        return self.ev(n[2], env)
                finally:
                    env.pop()
                return self.ev(n[3], env) if n[3] is not None else ()
            if self.truth(self.ev(c, env)):
                return self.ev(n[2], env)
            return self.ev(n[3], env) if n[3] is not None else ()
        if t == "match":
            v = self.ev(n[1], env)
            for pat, guard, body in n[3]:
                env.append({})
                try:
                    if self.bind(pat, v, env) and (guard is None or self.truth(self.ev(guard, env))):
                        return self.ev(body, env)
                finally:
                    env.pop()
            raise Unsupported(f"no arm matches {v!r}")
        if t == "while":
            c_ = H.strip(n[1])
            if H.tag(c_) == "letexpr":
                # while let PAT = e { body }
                while True:
                    env.append({})
                    try:
                        if not self.bind(c_[1], self.ev(c_[2], env), env):
                            break
                        self.ev(n[2], env)
                    except _Break:
                        break
                    except _Continue:
                        continue
                    finally:
                        env.pop()
                return ()
            while self.truth(self.ev(n[1], env)):
                try:
                    self.ev(n[2], env)
                except _Break:
                    break
                except _Continue:
                    continue
            return ()
        if t == "loop":
            while True:
                try:
                    self.ev(n[2], env)
                except _Break:
                    break
                except _Continue:
                    continue
            return ()
        if t == "for":
            src = self.ev(n[2], env)
            if isinstance(src, tuple) and src and src[0] == "itermut":
                src = src[1]
            it = [Ref(src, i) for i in range(len(src))] if isinstance(src, list) else self.iterate(src)
            pat = n[1]
            if H.tag(pat) in ("ps", "ts") and pat[1].endswith("::Some"):
                pat = pat[2][0][1] if H.tag(pat) == "ps" else pat[2][0]
            for x in it:
                env.append({})
                try:
                    self.bind(pat, x, env)
                    self.ev(n[3], env)
                except _Break:
                    break
                except _Continue:
                    continue
                finally:
                    env.pop()
            return ()
        if t == "break":
            raise _Break()
        if t == "continue":
            raise _Continue()
        if t == "ret":
            raise _Return(self.ev(n[1], env) if n[1] is not None else ())
        if t == "try":
            v = self.ev(n[1], env)
            if isinstance(v, tuple) and len(v) == 2 and v[0] == "Ok":
                return v[1]
            if isinstance(v, tuple) and len(v) == 2 and v[0] == "Some":
                return v[1]
            if isinstance(v, tuple) and len(v) == 2 and v[0] == "Err":
                raise _Return(v)
            if v == "None":
                raise _Return("None")
            raise Unsupported(f"`?` on {v!r}")
        if t == "await":
            return self.ev(n[1], env)
        if t == "asg":
            self.assign(n[1], self.ev(n[2], env), env)
            return ()
        if t == "asgop":
            op = n[2].replace("Assign", "")
            cur = self.ev(n[4], env)
            self.assign(n[4], self.binop(op, cur, self.ev(n[5], env), n[3]), env)
            return ()
        if t == "call":
            return self.call(n, env)
        if t == "mcall":
            return self.mcall(n, env)
        if t == "closure":
            return ("closure", n[2], n[3], env[:])
        raise Unsupported(f"expression {t}")

    def stmt(self, st, env):
        if st[0] == "let":
            if st[2] is None:
                if H.tag(st[1]) == "bind":
                    env[-1][st[1][1]] = None
                    return
                raise Unsupported("let without init")
            if H.tag(st[1]) == "bind" and str(st[1][4] or "").startswith("&mut "):
                v = self.ev_ref(st[2], env)  # `let r: &mut T = ..`: the reference itself is what is bound, not a copy of its target
            else:
                v = self.ev(st[2], env)
            if not self.bind(st[1], v, env):
                if st[3] is not None:
                    self.ev(st[3], env)
                    raise Unsupported("let-else fell through")
                raise Unsupported("refutable let")
        elif st[0] in ("semi", "expr"):
            self.ev(st[1], env)
        elif st[0] == "item":
            pass
        else:
            raise Unsupported(f"statement {st[0]}")

    def ev_ref(self, n, env):
        """the value of an expression of reference type without following the reference: a local that holds a reference to an element
        (from iter_mut / nth / next) stays that reference through `match` arms and blocks"""
        n0 = H.strip(n)
        t = H.tag(n0)
        if t == "local":
            return self.lookup(env, n0[1])
        if t == "block" and not n0[1] and n0[2] is not None:
            return self.ev_ref(n0[2], env)
        if t == "match":
            v = self.ev(n0[1], env)
            for pat, guard, body in n0[3]:
                env.append({})
                try:
                    if self.bind(pat, v, env) and (guard is None or self.truth(self.ev(guard, env))):
                        return self.ev_ref(body, env)
                finally:
                    env.pop()
            raise Unsupported(f"no arm matches {v!r}")
        return self.ev(n, env)

    def assign(self, target, v, env):
        target = H.strip(target)
        t = H.tag(target)
        if t == "local":
            self.setvar(env, target[1], v)
            return
        if t == "un" and target[2] == "Deref":
            inner = H.strip(target[4])
            if H.tag(inner) == "local":
                cell = self.lookup(env, inner[1])
                if isinstance(cell, Ref):
                    cell.lst[cell.i] = v
                    return
            return self.assign(target[4], v, env)
        if t == "idx":
            b = self.ev(target[3], env)
            i = self.ev(target[4], env)
            if isinstance(b, list) and isinstance(i, int):
                if i < 0 or i >= len(b):
                    raise Panic(f"index {i} out of bounds (len {len(b)})")
                b[i] = v
                return
        if t == "field":
            b = self.ev(target[1], env)
            if isinstance(b, Ref):
                b = b.get()
            if isinstance(b, tuple) and b and b[0] == "struct":
                b[2][target[2]] = v
                return
        raise Unsupported(f"assignment target {t}")

    def iterate(self, v):
        if isinstance(v, tuple) and v and v[0] == "range":
            return list(range(v[1], v[2]))
        if isinstance(v, list):
            return list(v)
        if isinstance(v, tuple) and v and v[0] == "iter":
            return list(v[1])
        if isinstance(v, Iter):
            return v.rest()
        if isinstance(v, LazyIter):
            return v  # consumed item by item: a `break` leaves the rest unproduced
        if isinstance(v, tuple) and v and v[0] == "itermut":
            return [Ref(v[1], i) for i in range(len(v[1]))]
        if isinstance(v, BTree):
            return v.items()
        if isinstance(v, tuple) and v and v[0] == "rangeincl":
            return list(range(v[1], v[2] + 1))
        raise Unsupported(f"iteration over {v!r}")

    def const(self, p):
        if p in getattr(self, "consts", {}):
            return self.consts[p]
        if p in ("std::f32::EPSILON", "std::f32::<impl f32>::EPSILON", "core::f32::EPSILON"):
            return 1.1920928955078125e-07
        if p in ("std::f64::EPSILON", "std::f64::<impl f64>::EPSILON"):
            return 2.220446049250313e-16
        if p.startswith("std::num::<impl ") and p.split("::")[-1] in ("MAX", "MIN"):
            ty = p.split("<impl ")[1].split(">")[0]
            bits = INT_BITS[ty]
            if ty.startswith("u"):
                return (1 << bits) - 1 if p.endswith("MAX") else 0
            return (1 << (bits - 1)) - 1 if p.endswith("MAX") else -(1 << (bits - 1))
        for cname, F in self.FB.items():
            q = p if p.startswith(("crate::", "<crate::")) and cname == self.crate else None
            if q is None and p.split("::", 1)[0] == cname:
                q = "crate::" + p.split("::", 1)[1]
            if q is None:
                continue
            c = F.const(q)
            if c is not None:
                if c.get("val") is not None:
                    return int(c["val"])
                if c.get("hir") is not None:
                    return self.ev(c["hir"], [{}])
        return None

    # ---- calls -------------------------------------------------------------------------------------------------------
    def call(self, n, env):
        p = H.call_path(n)
        if p is None:
            f = self.ev(H.strip(n)[2], env)
            args = [self.ev(a, env) for a in H.call_args(n)]
            return self.apply(f, args)
        args = [self.ev(a, env) for a in H.call_args(n)]
        last = p.split("::")[-1]
        for suffix, f in getattr(self, "overrides", {}).items():
            if p.endswith(suffix) and not suffix.startswith("::") or (suffix.startswith("::") and p.endswith(suffix)):
                return f(args, n) if getattr(f, "with_node", False) else f(args)
        if p.startswith("std::result::Result::") or p.startswith("std::option::Option::"):
            if last in ("Ok", "Err", "Some"):
                return (last, args[0])
        if "Ctor(Variant, Fn)" in H.strip(H.strip(n)[2])[2]:
            return ("variant", self.canon(p), args)
        if p in ("std::ptr::eq", "core::ptr::eq") and len(args) == 2:
            a_, b_ = args
            if isinstance(a_, (list, tuple, dict)) and isinstance(b_, (list, tuple, dict)):
                return a_ is b_
            raise Unsupported("ptr::eq on values without identity")
        if p in ("std::slice::from_ref", "std::slice::raw::from_ref", "core::slice::raw::from_ref") and len(args) == 1:
            return [args[0]]
        if p == "std::boxed::Box::<T>::new" and len(args) == 1:
            return args[0]
        if p in ("std::boxed::Box::<T>::pin", "std::pin::Pin::<Ptr>::new") and len(args) == 1:
            a0 = args[0]
            if isinstance(a0, tuple) and a0 and a0[0] == "closure" and not a0[1]:
                return self.apply(a0, [])  # a boxed async block: its value is what awaiting it yields
            return a0
        if p in ("std::iter::sources::once::once", "std::iter::once") and len(args) == 1:
            return ("iter", [args[0]])
        if p in ("std::iter::sources::empty::empty", "std::iter::empty"):
            return ("iter", [])
        if p in ("std::iter::sources::repeat_with::repeat_with", "std::iter::repeat_with") and len(args) == 1:
            return LazyIter(self, args[0])
        if last == "new" and "NonZero" in p and len(args) == 1 and isinstance(args[0], int):
            return ("Some", args[0]) if args[0] != 0 else "None"
        if last == "new" and "NonZero" in p and len(args) == 1 and isinstance(args[0], (Wide, Tok)):
            # an abstract integer: non-zero when one of its bytes is known to be non-zero, zero when every byte is the concrete 0
            sl = args[0].slots if isinstance(args[0], Wide) else [args[0]]
            if any((isinstance(x, Tok) and x.cls == "nz") or (isinstance(x, int) and x != 0) for x in sl):
                return ("Some", args[0])
            if all(isinstance(x, int) and x == 0 for x in sl) or all(isinstance(x, Tok) and x.cls == "z" or x == 0 for x in sl):
                return "None"
            raise Unsupported("NonZero::new of a byte pattern that may or may not be zero")
        if last == "get" and "NonZero" in p and len(args) == 1:
            return args[0]
        if p == "std::string::String::new" and not args:
            return []  # a String is modelled by its bytes
        if p in ("std::vec::Vec::<T>::with_capacity", "std::vec::Vec::<T>::new"):
            if p.endswith("with_capacity") and isinstance(args[0], int) and args[0] > (1 << 32):
                raise Panic(f"allocation of {args[0]} elements")
            return []
        if p == "std::vec::from_elem":
            if not isinstance(args[1], int):
                raise Unsupported("vec! with abstract length")
            if args[1] > (1 << 26):
                raise Panic(f"allocation of {args[1]} elements")
            return [args[0]] * args[1]
        if p in ("std::convert::From::from", "std::convert::Into::into"):
            ga = H.call_gargs(n)
            if len(ga) >= 2 and ga[0] in INT_BITS and ga[1] in INT_BITS:
                return self.cast(args[0], ga[1], ga[0])
            if len(ga) >= 2 and ga[0] in INT_BITS and ga[1] == "bool" and isinstance(args[0], bool):
                return int(args[0])
        if p.startswith("std::f32::<impl f32>::") and last in ("from_le_bytes", "from_be_bytes"):
            b = list(args[0])
            return Wide(b if last == "from_le_bytes" else b[::-1])
        if p.startswith("std::num::<impl ") and last in ("from_le_bytes", "from_be_bytes"):
            ty = p.split("<impl ")[1].split(">")[0]
            b = list(args[0])
            if last == "from_be_bytes":
                b = b[::-1]
            if len(b) == 1:
                return b[0]
            if all(isinstance(x, int) for x in b):
                return sum(x << (8 * i) for i, x in enumerate(b))
            return Wide(b)
        if p.startswith("std::num::<impl ") and last == "from_str_radix" and len(args) == 2 and isinstance(args[1], int):
            return self.parse_int(args[0], p.split("<impl ")[1].split(">")[0], args[1])
        if p in ("std::str::<impl str>::parse", "core::str::<impl str>::parse") and len(args) == 1:
            ga = H.call_gargs(n)
            return self.parse_int(args[0], ga[0] if ga else None, 10)
        if p in ("std::str::FromStr::from_str", "core::str::FromStr::from_str") and len(args) == 1:
            ga = H.call_gargs(n)
            if ga and ga[0] in INT_BITS:
                return self.parse_int(args[0], ga[0], 10)
        if p == "std::ops::range::RangeInclusive::<Idx>::new":
            return ("rangeincl", args[0], args[1])
        if p.startswith("std::collections::btree::map::BTreeMap") and last == "new":
            return BTree()
        if p.startswith(("std::collections::btree::set::BTreeSet", "std::collections::BTreeSet")) and last == "new":
            return []  # a BTreeSet is modelled by its element list
        if p.startswith(("std::collections::HashMap", "std::collections::hash::map::HashMap", "hashbrown::map::HashMap")) and last in ("new", "with_capacity"):
            return HMap()
        if p == "std::default::Default::default":
            ty = H.strip(n)[4] or ""
            dv = self.default_of(ty, 0)
            if dv is not None:
                return dv[0]
        if p == "std::convert::TryInto::try_into" or p == "std::convert::TryFrom::try_from":
            ga = H.call_gargs(n)
            r = self.try_from(ga, args[0], swap=p.endswith("try_from"))
            if r is not None:
                return r
        if p == "std::string::String::from_utf8" and isinstance(args[0], list):
            return ("Ok", args[0])  # a String is modelled by its bytes (UTF-8 validation is std's)
        if p == "std::io::Write::write_all" and len(args) == 2:
            tgt = args[0]
            if isinstance(tgt, Sink) and isinstance(args[1], list):
                tgt.out.extend(args[1])
                return ("Ok", ())
            if isinstance(tgt, list) and isinstance(args[1], list):
                tgt.extend(args[1])
                return ("Ok", ())
            raise Unsupported("write_all operands")
        if p in ("std::mem::size_of_val", "core::mem::size_of_val") and len(args) == 1:
            ga = H.call_gargs(n)
            t0 = ga[0] if ga else ""
            a0 = args[0].get() if isinstance(args[0], Ref) else args[0]
            if t0.startswith("[") and t0.endswith("]") and ";" not in t0 and t0[1:-1] in INT_BITS and isinstance(a0, list):
                return len(a0) * (INT_BITS[t0[1:-1]] // 8)
            if t0.startswith("std::vec::Vec<") and t0[len("std::vec::Vec<"):].rstrip(">") in INT_BITS:
                raise Unsupported("size_of_val of a Vec (the handle, not its contents)")
            if t0 in INT_BITS:
                return INT_BITS[t0] // 8
        if p == "std::mem::size_of":
            ga = H.call_gargs(n)
            if ga and ga[0] in INT_BITS:
                return INT_BITS[ga[0]] // 8
            if ga and ga[0] == "f32":
                return 4
        r, _ = self.find_fn(p, self.crate)
        if r is not None:
            return self.call_fn(p, args, gargs=H.call_gargs(n))
        if args and p.startswith(("std::", "core::", "alloc::")) and not getattr(self, "_in_ufcs", False):
            # a method named by its path (`u32::count_ones(x)`, `.map(u32::count_ones)`): the same models as the method-call form
            self._in_ufcs = True
            try:
                return self.mcall(["mcall", "0:0", last, p, H.call_gargs(n), None, ["quote", args[0]], [["quote", a] for a in args[1:]], None, None], env)
            except Unsupported:
                pass
            finally:
                self._in_ufcs = False
        raise Unsupported(f"call {p}")

    def parse_int(self, text, ty, radix):
        """Rust's integer parsing: optional sign, then digits of the radix only (no whitespace, no underscores, no prefix)"""
        if ty not in INT_BITS or not isinstance(text, str):
            raise Unsupported(f"parse::<{ty}>")
        import re as _re
        mt = _re.fullmatch(r"([+-]?)([0-9a-zA-Z]+)", text)
        if not mt:
            return ("Err", "ParseIntError")
        try:
            v = int(mt.group(2), radix)
        except ValueError:
            return ("Err", "ParseIntError")
        if mt.group(1) == "-":
            if ty.startswith("u"):
                return ("Err", "ParseIntError")
            v = -v
        bits = INT_BITS[ty]
        lo, hi = (0, (1 << bits) - 1) if ty.startswith("u") else (-(1 << (bits - 1)), (1 << (bits - 1)) - 1)
        return ("Ok", v) if lo <= v <= hi else ("Err", "ParseIntError")

    def try_from(self, gargs, v, swap):
        """TryInto<T> for S / TryFrom<S> for T between integers, or a local TryFrom impl"""
        if len(gargs) < 2:
            return None
        src, dst = (gargs[1], gargs[0]) if swap else (gargs[0], gargs[1])
        if src in INT_BITS and dst in INT_BITS and isinstance(v, int):
            bits = INT_BITS[dst]
            lo, hi = (0, (1 << bits) - 1) if dst.startswith("u") else (-(1 << (bits - 1)), (1 << (bits - 1)) - 1)
            return ("Ok", v) if lo <= v <= hi else ("Err", "TryFromIntError")
        if src in INT_BITS and dst in INT_BITS and isinstance(v, (Tok, Wide)) and INT_BITS[dst] >= INT_BITS[src]:
            return ("Ok", v)
        cand = f"<{dst} as std::convert::TryFrom<{src}>>::try_from"
        for variant in (cand, cand.replace(self.crate + "::", "crate::")):
            r, _ = self.find_fn(variant, self.crate)
            if r is not None:
                return self.call_fn(variant, [v])
        return None

    def apply(self, f, args):
        if isinstance(f, tuple) and f and f[0] == "fn":
            # a function item used as a value (`.map(u32::from_le_bytes)`): the same resolution as a direct call, std models included
            return self.call(["call", "0:0", ["path", f[1], f[2] if len(f) > 2 else "Fn", f[3] if len(f) > 3 else []], [["quote", a] for a in args], None], [{}])
        if isinstance(f, tuple) and f and f[0] == "closure":
            env = f[3] + [{}]
            for p, a in zip(f[1], args):
                self.bind(p, a, env)
            return self.ev(f[2], env)
        raise Unsupported(f"apply {f!r}")

    def mcall(self, n, env):
        m = H.mcall(n)
        p, nm = m["path"], m["name"]
        if nm in ("nth", "next") and p.startswith("std::iter::traits::iterator::Iterator::"):
            # an iterator is consumed by these: a stateless iterator value held in a local becomes a stateful one that remembers how far
            # it got (a temporary, which cannot be observed again, may stay stateless)
            place = H.strip_refs(m["recv"])
            if H.tag(place) == "local":
                cur = self.lookup(env, place[1])
                if isinstance(cur, tuple) and cur and cur[0] in ("iter", "itermut", "range", "rangeincl"):
                    self.setvar(env, place[1], Iter(self.iterate(cur)))
                cur = self.lookup(env, place[1])
                if isinstance(cur, Iter):
                    k = 0
                    if nm == "nth":
                        k = self.ev(m["args"][0], env)
                        if not isinstance(k, int) or isinstance(k, bool):
                            raise Unsupported("nth of an abstract index")
                    cur.pos = min(cur.pos + k, len(cur.items))
                    return cur.next()
        if p.startswith("std::option::Option::<T>::") and nm in ("replace", "take", "insert"):
            # methods that mutate the Option in place: the receiver must be a field of a struct value
            place = H.strip_refs(m["recv"])
            if H.tag(place) == "field":
                base = self.ev(place[1], env)
                if isinstance(base, Ref):
                    base = base.get()
                if isinstance(base, tuple) and base and base[0] == "struct" and place[2] in base[2]:
                    old = base[2][place[2]]
                    if nm == "take":
                        base[2][place[2]] = "None"
                        return old
                    val = self.ev(m["args"][0], env)
                    base[2][place[2]] = ("Some", val)
                    return old if nm == "replace" else val
            raise Unsupported(f"Option::{nm} on a place that is not a struct field")
        if nm in ("clone_from_slice", "copy_from_slice") and len(m["args"]) == 1:
            tgt = H.strip_refs(m["recv"])
            src = self.ev(m["args"][0], env)
            if isinstance(src, Ref):
                src = src.get()
            if H.tag(tgt) == "idx" and isinstance(src, list):
                base = self.ev(tgt[3], env)
                rng = self.ev(tgt[4], env)
                if isinstance(base, list) and isinstance(rng, tuple) and rng and rng[0] in ("range", "rangefrom", "rangeincl"):
                    lo = rng[1]
                    hi = len(base) if rng[0] == "rangefrom" else rng[2] + (1 if rng[0] == "rangeincl" else 0)
                    if not (isinstance(lo, int) and isinstance(hi, int)) or lo > hi or hi > len(base):
                        raise Panic("slice index out of range")
                    if hi - lo != len(src):
                        raise Panic("source slice length does not match destination slice length")
                    base[lo:hi] = list(src)
                    return ()
            elif isinstance(src, list):
                dst = self.ev(m["recv"], env)
                if isinstance(dst, list):
                    if len(dst) != len(src):
                        raise Panic("source slice length does not match destination slice length")
                    dst[:] = list(src)
                    return ()
        recv = self.ev(m["recv"], env)
        args = [self.ev(a, env) for a in m["args"]]
        for suffix, f in getattr(self, "overrides", {}).items():
            if p.endswith(suffix) and (p.startswith(("std::", "core::", "alloc::")) or getattr(f, "with_node", False)):
                return f([recv] + args, n) if getattr(f, "with_node", False) else f([recv] + args)
        if isinstance(recv, str) and nm in ("to_string", "to_owned", "as_str", "into", "as_ref") and not args and p.startswith(("std::", "core::", "alloc::")) and recv != "None":
            return recv  # strings are values here: owned / borrowed forms coincide
        if isinstance(recv, bool) and p.startswith("std::bool::<impl bool>::") and nm in ("then_some", "then") and len(args) == 1:
            if not recv:
                return "None"
            return ("Some", args[0] if nm == "then_some" else self.apply(args[0], []))
        if isinstance(recv, str) and recv != "None" and p.startswith(("std::str::<impl str>::", "std::string::String::", "alloc::str::<impl str>::")):
            def _s(a0):
                if isinstance(a0, tuple) and len(a0) == 2 and a0[0] == "lit" and isinstance(a0[1], str) and len(a0[1]) == 1:
                    return a0[1]
                return a0 if isinstance(a0, str) else None
            if nm in ("strip_prefix", "strip_suffix") and len(args) == 1 and _s(args[0]) is not None:
                q = _s(args[0])
                if nm == "strip_prefix":
                    return ("Some", recv[len(q):]) if recv.startswith(q) else "None"
                return ("Some", recv[:len(recv) - len(q)]) if recv.endswith(q) else "None"
            if nm == "replace" and len(args) == 2 and _s(args[0]) is not None and _s(args[1]) is not None:
                return recv.replace(_s(args[0]), _s(args[1]))
            if nm in ("as_bytes", "bytes", "into_bytes") and not args:
                bs = list(recv.encode("utf-8"))
                return bs if nm != "bytes" else ("iter", bs)
            if nm == "len" and not args:
                return len(recv.encode("utf-8"))
            if nm == "is_empty" and not args:
                return recv == ""
            if nm in ("trim", "trim_start", "trim_end") and not args:
                return {"trim": recv.strip(), "trim_start": recv.lstrip(), "trim_end": recv.rstrip()}[nm]
            if nm in ("to_lowercase", "to_uppercase", "to_ascii_lowercase", "to_ascii_uppercase") and not args:
                return recv.lower() if "lower" in nm else recv.upper()
            if nm == "parse" and not args:
                return self.parse_int(recv, (m["gargs"] or [None])[0], 10)
        if isinstance(recv, str) and p.startswith("std::str::<impl str>::") and nm in ("contains", "starts_with", "ends_with") and len(args) == 1:
            a0 = args[0]
            if isinstance(a0, tuple) and len(a0) == 2 and a0[0] == "lit" and isinstance(a0[1], str) and len(a0[1]) == 1:
                a0 = a0[1]  # a char literal
            if isinstance(a0, str):
                return (a0 in recv) if nm == "contains" else recv.startswith(a0) if nm == "starts_with" else recv.endswith(a0)
        if nm == "contains" and isinstance(recv, tuple) and recv and recv[0] in ("range", "rangeincl") and len(args) == 1 and all(isinstance(x, int) and not isinstance(x, bool) for x in (recv[1], recv[2], args[0])):
            return recv[1] <= args[0] <= recv[2] if recv[0] == "rangeincl" else recv[1] <= args[0] < recv[2]
        if nm in ("to_bits", "from_bits") and not args and p.startswith(("std::f32::<impl f32>::", "std::f64::<impl f64>::", "core::f32::<impl f32>::")):
            return recv  # a float and its bit image are the same abstract word
        if isinstance(recv, LazyIter):
            if nm == "take" and len(args) == 1 and isinstance(args[0], int):
                recv.limit = args[0] if recv.limit is None else min(recv.limit, args[0])
                return recv
            if nm == "next" and not args:
                return recv.next()
            if nm in ("by_ref", "into_iter", "iter", "fuse"):
                return recv
            raise Unsupported(f"{nm} on a lazy iterator")
        if nm == "transpose" and not args and (recv == "None" or (isinstance(recv, tuple) and recv and recv[0] == "Some")):
            # Option<Result<T, E>> -> Result<Option<T>, E>
            if recv == "None":
                return ("Ok", "None")
            inner = recv[1]
            if isinstance(inner, tuple) and inner and inner[0] == "Ok":
                return ("Ok", ("Some", inner[1]))
            if isinstance(inner, tuple) and inner and inner[0] == "Err":
                return inner
            raise Unsupported("transpose of a non-Result")
        if nm == "get" and not args and "NonZero" in p:
            return recv  # NonZero<T>::get: the integer itself
        if nm in ("get", "first", "last") and isinstance(recv, list) and p.startswith(("std::slice::<impl [T]>::", "std::vec::Vec")):
            if nm == "get" and len(args) == 1 and isinstance(args[0], int) and not isinstance(args[0], bool):
                return ("Some", recv[args[0]]) if 0 <= args[0] < len(recv) else "None"
            if nm == "get" and len(args) == 1 and isinstance(args[0], tuple) and args[0] and args[0][0] in ("range", "rangefrom", "rangeincl"):
                r_ = args[0]
                lo_ = r_[1]
                hi_ = len(recv) if r_[0] == "rangefrom" else r_[2] + (1 if r_[0] == "rangeincl" else 0)
                if isinstance(lo_, int) and isinstance(hi_, int):
                    return ("Some", recv[lo_:hi_]) if 0 <= lo_ <= hi_ <= len(recv) else "None"
            if nm in ("first", "last") and not args:
                return ("Some", recv[0 if nm == "first" else -1]) if recv else "None"
        if nm == "contains" and isinstance(recv, list) and len(args) == 1 and p.startswith(("std::slice::<impl [T]>::", "std::vec::Vec")):
            a0 = args[0].get() if isinstance(args[0], Ref) else args[0]
            return any(x == a0 for x in recv)
        if p.startswith("std::slice::<impl [T]>::") and nm == "fill" and isinstance(recv, list) and len(args) == 1:
            recv[:] = [args[0]] * len(recv)
            return ()
        if p.startswith(("std::option::Option::<&T>::", "std::option::Option::<&mut T>::")) and nm in ("copied", "cloned") and not args:
            return ("Some", recv[1].get()) if isinstance(recv, tuple) and len(recv) == 2 and recv[0] == "Some" and isinstance(recv[1], Ref) else recv
        if p in ("std::cmp::Ord::min", "std::cmp::Ord::max") and isinstance(recv, int) and len(args) == 1 and isinstance(args[0], int) and not isinstance(recv, bool):
            return min(recv, args[0]) if nm == "min" else max(recv, args[0])
        if p == "std::cmp::Ord::clamp" and all(isinstance(x, int) and not isinstance(x, bool) for x in [recv] + args) and len(args) == 2:
            return max(args[0], min(recv, args[1]))
        if p in ("std::io::Read::read_exact",) or p.endswith("AsyncReadExt::read_exact") or p.endswith("ReadExt::read_exact"):
            buf = args[0]
            if not isinstance(recv, Stream) or not isinstance(buf, list):
                raise Unsupported("read_exact operands")
            got = recv.take(len(buf))
            if got is None:
                return ("Err", "UnexpectedEof")
            buf[:] = got
            return ("Ok", ())
        if p == "std::io::Write::write_all" or p.endswith("WriteExt::write_all"):
            if isinstance(recv, Sink) and isinstance(args[0], list):
                recv.out.extend(args[0])
                return ("Ok", ())
            if isinstance(recv, list) and isinstance(args[0], list):
                recv.extend(args[0])
                return ("Ok", ())
            raise Unsupported("write_all operands")
        if p.startswith("std::vec::Vec::<T, A>::") or p.startswith("std::vec::Vec::<T>::"):
            if nm == "push":
                recv.append(args[0])
                return ()
            if nm == "len":
                return len(recv)
            if nm in ("as_slice", "as_mut_slice"):
                return recv
            if nm == "extend_from_slice":
                recv.extend(args[0])
                return ()
            if nm == "resize" and isinstance(args[0], int):
                if args[0] > (1 << 26):
                    raise Panic(f"allocation of {args[0]} elements")
                if args[0] < len(recv):
                    del recv[args[0]:]
                else:
                    recv.extend([args[1]] * (args[0] - len(recv)))
                return ()
            if nm == "is_empty":
                return len(recv) == 0
            if nm == "clear":
                del recv[:]
                return ()
            if nm == "truncate" and isinstance(args[0], int):
                del recv[args[0]:]
                return ()
        if p.startswith("std::array::<impl [T; N]>::") and nm in ("as_slice", "as_mut_slice"):
            return recv
        if p in ("std::string::String::as_bytes", "std::str::<impl str>::as_bytes", "std::string::String::as_str", "std::string::String::into_bytes") and isinstance(recv, list):
            return recv
        if p in ("std::string::String::len", "std::str::<impl str>::len") and isinstance(recv, list):
            return len(recv)
        if p in ("std::string::String::is_empty", "std::str::<impl str>::is_empty") and isinstance(recv, list):
            return len(recv) == 0
        if p.startswith(("std::option::Option::<T>::as_deref", "std::option::Option::<T>::as_ref", "std::option::Option::<T>::as_mut")) or p == "std::ops::Deref::deref":
            return recv
        if p.startswith("std::slice::<impl [T]>::"):
            if nm == "len":
                return len(recv)
            if nm == "to_vec" and isinstance(recv, list):
                import copy
                return copy.deepcopy(recv)
            if nm == "binary_search_by_key" and isinstance(recv, list):
                keys = [self.apply(args[1], [x]) for x in recv]
                want = args[0]
                if not all(isinstance(k, int) for k in keys) or not isinstance(want, int):
                    raise Unsupported("binary search over abstract keys")
                lo, hi = 0, len(keys)  # std's contract: any match when sorted; unspecified otherwise - follow the usual bisection
                while lo < hi:
                    mid = (lo + hi) // 2
                    if keys[mid] == want:
                        return ("Ok", mid)
                    if keys[mid] < want:
                        lo = mid + 1
                    else:
                        hi = mid
                return ("Err", lo)
            if nm == "iter":
                return Iter(list(recv))
            if nm == "is_empty":
                return len(recv) == 0
            if nm in ("as_slice", "as_str", "as_bytes", "as_mut_slice") and not args:
                return recv
            if nm in ("starts_with", "ends_with") and isinstance(recv, list) and len(args) == 1 and isinstance(args[0], list):
                q = args[0]
                if len(q) > len(recv):
                    return False
                part = recv[:len(q)] if nm == "starts_with" else recv[len(recv) - len(q):]
                if all(isinstance(x, int) and not isinstance(x, bool) for x in part + q):
                    return part == q
                if all(a is b or (isinstance(a, Tok) and isinstance(b, Tok) and a == b) for a, b in zip(part, q)):
                    return True
                raise Unsupported("starts_with on abstract bytes")
            if nm in ("split_first", "split_first_mut") and isinstance(recv, list):
                return ("Some", (recv[0], recv[1:])) if recv else "None"
            if nm in ("split_last", "split_last_mut") and isinstance(recv, list):
                return ("Some", (recv[-1], recv[:-1])) if recv else "None"
            if nm in ("split_at", "split_at_mut") and isinstance(recv, list) and isinstance(args[0], int):
                if args[0] > len(recv):
                    raise Panic("split_at beyond the end")
                return (recv[:args[0]], recv[args[0]:])
        if p == "std::iter::traits::iterator::Iterator::enumerate":
            return ("iter", [(i, x) for i, x in enumerate(self.iterate(recv))])
        if p == "std::iter::traits::iterator::Iterator::rev":
            return ("iter", list(reversed(self.iterate(recv))))
        if p == "std::iter::traits::collect::IntoIterator::into_iter":
            return ("iter", self.iterate(recv))
        if p.startswith("std::num::<impl "):
            ty = p.split("<impl ")[1].split(">")[0]
            nb = INT_BITS[ty] // 8
            if nm in ("to_le_bytes", "to_be_bytes"):
                sl = to_wide(recv, nb).slots
                return sl if nm == "to_le_bytes" else sl[::-1]
            if nm == "checked_sub" and isinstance(recv, int):
                r = recv - args[0]
                return ("Some", r) if r >= 0 or ty.startswith("i") else "None"
            if nm == "checked_add" and isinstance(recv, int):
                r = recv + args[0]
                return ("Some", r) if r < (1 << INT_BITS[ty]) else "None"
            if nm == "checked_mul" and isinstance(recv, int) and isinstance(args[0], int):
                r = recv * args[0]
                lo_ = -(1 << (INT_BITS[ty] - 1)) if ty.startswith("i") else 0
                hi_ = (1 << (INT_BITS[ty] - 1)) - 1 if ty.startswith("i") else (1 << INT_BITS[ty]) - 1
                return ("Some", r) if lo_ <= r <= hi_ else "None"
            if nm == "saturating_sub" and isinstance(recv, int):
                return max(recv - args[0], 0)
            if nm == "wrapping_add" and isinstance(recv, int):
                return (recv + args[0]) & ((1 << INT_BITS[ty]) - 1)
            if nm == "pow" and isinstance(recv, int) and isinstance(args[0], int):
                return self.wrapchk(recv ** args[0], ty, "pow")
            if isinstance(recv, int) and not isinstance(recv, bool):
                bits = INT_BITS[ty]
                full = (1 << bits) - 1
                if nm == "trailing_zeros":
                    return bits if recv & full == 0 else ((recv & full) & -(recv & full)).bit_length() - 1
                if nm == "leading_zeros":
                    return bits - (recv & full).bit_length()
                if nm == "wrapping_shr" and isinstance(args[0], int):
                    return (recv & full) >> (args[0] % bits)
                if nm == "wrapping_shl" and isinstance(args[0], int):
                    return ((recv & full) << (args[0] % bits)) & full
                if nm == "wrapping_sub" and isinstance(args[0], int):
                    return (recv - args[0]) & full
                if nm == "wrapping_mul" and isinstance(args[0], int):
                    return (recv * args[0]) & full
                if nm in ("checked_shr", "checked_shl") and isinstance(args[0], int):
                    if args[0] >= bits:
                        return "None"
                    return ("Some", (recv >> args[0]) if nm == "checked_shr" else ((recv << args[0]) & full))
                if nm == "is_power_of_two":
                    return recv != 0 and recv & (recv - 1) == 0
            if nm == "count_ones" and isinstance(recv, int):
                return bin(recv).count("1")
        if p.startswith("std::option::Option::<T>::"):
            if nm == "ok_or":
                return ("Ok", recv[1]) if recv != "None" else ("Err", args[0])
            if nm == "is_some":
                return recv != "None"
            if nm == "ok_or_else":
                return ("Ok", recv[1]) if recv != "None" else ("Err", self.apply(args[0], []))
            if nm in ("unwrap_or", ):
                return recv[1] if recv != "None" else args[0]
            if nm == "unwrap_or_default" and recv != "None":
                return recv[1]
            if nm == "is_none":
                return recv == "None"
            if nm == "and_then":
                return self.apply(args[0], [recv[1]]) if recv != "None" else "None"
            if nm == "map_or":
                return self.apply(args[1], [recv[1]]) if recv != "None" else args[0]
            if nm == "map_or_else":
                return self.apply(args[1], [recv[1]]) if recv != "None" else self.apply(args[0], [])
            if nm == "unwrap_or_else":
                return recv[1] if recv != "None" else self.apply(args[0], [])
            if nm in ("is_some_and", "is_none_or"):
                if recv == "None":
                    return nm == "is_none_or"
                return self.truth(self.apply(args[0], [recv[1]]))
            if nm == "filter":
                return recv if recv != "None" and self.truth(self.apply(args[0], [recv[1]])) else "None"
            if nm in ("copied", "cloned"):
                return recv
            if nm == "or":
                return recv if recv != "None" else args[0]
            if nm == "or_else":
                return recv if recv != "None" else self.apply(args[0], [])
            if nm == "unwrap":
                if recv == "None":
                    raise Panic("unwrap on None")
                return recv[1]
        if p.startswith("std::result::Result::<T, E>::"):
            if nm in ("unwrap", "expect"):
                if recv[0] != "Ok":
                    raise Panic(f"{nm} on Err")
                return recv[1]
            if nm == "unwrap_or_else":
                return recv[1] if recv[0] == "Ok" else self.apply(args[0], [recv[1]])
            if nm == "unwrap_or":
                return recv[1] if recv[0] == "Ok" else args[0]
            if nm == "map_err":
                return recv
            if nm == "map":
                return ("Ok", self.apply(args[0], [recv[1]])) if recv[0] == "Ok" else recv
            if nm == "and_then":
                return self.apply(args[0], [recv[1]]) if recv[0] == "Ok" else recv
            if nm == "map_or":
                return self.apply(args[1], [recv[1]]) if recv[0] == "Ok" else args[0]
            if nm in ("copied", "cloned"):
                return recv
            if nm == "ok":
                return ("Some", recv[1]) if recv[0] == "Ok" else "None"
            if nm == "is_ok":
                return recv[0] == "Ok"
            if nm == "is_err":
                return recv[0] == "Err"
        if p in ("std::convert::Into::into", "std::convert::From::from"):
            ga = m["gargs"]
            if len(ga) >= 2 and ga[0] in INT_BITS and ga[1] in INT_BITS:
                return self.cast(recv, ga[0], ga[1])
            if len(ga) >= 2 and ga[0] == ga[1]:
                return recv
            if isinstance(recv, int) and not isinstance(recv, bool) and len(ga) >= 2 and (ga[1] in INT_BITS or ga[0] in INT_BITS):
                # `amount: impl Into<u32>` handed an integer: a value-preserving widening (that it compiles says the source fits)
                return recv
        if p in ("std::clone::Clone::clone",):
            if isinstance(recv, BTree):
                b = BTree()
                b.d = dict(recv.d)
                return b
            return list(recv) if isinstance(recv, list) else recv
        if p == "std::convert::TryInto::try_into":
            r = self.try_from(m["gargs"], recv, swap=False)
            if r is not None:
                return r
        if p.startswith(("std::collections::HashMap", "std::collections::hash::map::HashMap", "hashbrown::map::HashMap")):
            if not isinstance(recv, HMap):
                raise Unsupported("HashMap receiver")
            if nm == "insert":
                k = HMap.key(args[0])
                old = recv.d.get(k)
                had = k in recv.d
                recv.d[k] = args[1]
                return ("Some", old) if had else "None"
            if nm == "get":
                k = HMap.key(args[0])
                return ("Some", recv.d[k]) if k in recv.d else "None"
            if nm == "contains_key":
                return HMap.key(args[0]) in recv.d
            if nm == "len":
                return len(recv.d)
            if nm == "is_empty":
                return not recv.d
            raise Unsupported(f"HashMap::{nm} (order-dependent or unmodelled)")
        if p.startswith("std::collections::btree::set::BTreeSet") and isinstance(recv, list):
            # a BTreeSet is modelled by its sorted element list
            if nm == "is_empty":
                return not recv
            if nm == "len":
                return len(recv)
            if nm == "contains":
                return args[0] in recv
            if nm == "iter":
                return Iter(list(recv))
            if nm == "get":
                return ("Some", args[0]) if args[0] in recv else "None"
            if nm == "clear":
                del recv[:]
                return ()
            if nm == "insert":
                # insertion position is irrelevant for the uses modelled (membership, any / all, iteration over an unordered condition)
                if args[0] in recv:
                    return False
                recv.append(args[0])
                return True
        if p.startswith("std::collections::btree::map::BTreeMap"):
            if not isinstance(recv, BTree):
                raise Unsupported("BTreeMap receiver")
            if nm == "insert":
                k = args[0]
                if not isinstance(k, int):
                    raise Unsupported("abstract map key")
                old = recv.d.get(k)
                recv.d[k] = args[1]
                return ("Some", old) if old is not None else "None"
            if nm == "get":
                return ("Some", recv.d[args[0]]) if args[0] in recv.d else "None"
            if nm == "contains_key":
                return args[0] in recv.d
            if nm == "remove":
                return ("Some", recv.d.pop(args[0])) if args[0] in recv.d else "None"
            if nm == "len":
                return len(recv.d)
            if nm == "is_empty":
                return not recv.d
            if nm == "iter":
                return Iter(recv.items())
            if nm in ("keys", "values"):
                return Iter([kv[0 if nm == "keys" else 1] for kv in recv.items()])
            if nm == "range":
                r = args[0]
                if isinstance(r, tuple) and r[0] == "rangeincl":
                    return Iter([kv for kv in recv.items() if r[1] <= kv[0] <= r[2]])
                if isinstance(r, tuple) and r[0] == "range":
                    return Iter([kv for kv in recv.items() if r[1] <= kv[0] < r[2]])
        if p == "std::iter::traits::iterator::Iterator::next":
            if isinstance(recv, Iter):
                return recv.next()
        if p == "std::iter::traits::iterator::Iterator::flatten":
            out = []
            for x in self.iterate(recv):
                if isinstance(x, Ref):
                    x = x.get()
                if x == "None":
                    continue
                if isinstance(x, tuple) and len(x) == 2 and x[0] == "Some":
                    out.append(x[1])
                elif isinstance(x, list):
                    out.extend(x)
                else:
                    raise Unsupported("flatten over non-Option items")
            return ("iter", out)
        if p == "std::iter::traits::iterator::Iterator::zip":
            a_, b_ = recv, args[0]
            inf_a = isinstance(a_, tuple) and a_ and a_[0] == "rangefrom" and isinstance(a_[1], int)
            inf_b = isinstance(b_, tuple) and b_ and b_[0] == "rangefrom" and isinstance(b_[1], int)
            if inf_a and not inf_b:
                ys = self.iterate(b_)
                return ("iter", [(a_[1] + i, y) for i, y in enumerate(ys)])
            if inf_b and not inf_a:
                xs = self.iterate(a_)
                return ("iter", [(x, b_[1] + i) for i, x in enumerate(xs)])
            return ("iter", list(zip(self.iterate(a_), self.iterate(b_))))
        if p == "std::iter::traits::iterator::Iterator::fold":
            acc = args[0]
            for x in self.iterate(recv):
                acc = self.apply(args[1], [acc, x])
            return acc
        if p == "std::iter::traits::iterator::Iterator::any":
            return any(self.truth(self.apply(args[0], [x])) for x in self.iterate(recv))
        if p == "std::iter::traits::iterator::Iterator::all":
            return all(self.truth(self.apply(args[0], [x])) for x in self.iterate(recv))
        if p == "std::iter::traits::iterator::Iterator::map":
            return ("iter", [self.apply(args[0], [x]) for x in self.iterate(recv)])
        if p == "std::iter::traits::iterator::Iterator::filter_map":
            out = []
            for x in self.iterate(recv):
                r = self.apply(args[0], [x])
                if r == "None":
                    continue
                if isinstance(r, tuple) and len(r) == 2 and r[0] == "Some":
                    out.append(r[1])
                else:
                    raise Unsupported("filter_map closure result")
            return ("iter", out)
        if p == "std::iter::traits::iterator::Iterator::flat_map":
            out = []
            for x in self.iterate(recv):
                out.extend(self.iterate(self.apply(args[0], [x])))
            return ("iter", out)
        if p == "std::iter::traits::iterator::Iterator::chain":
            return ("iter", self.iterate(recv) + self.iterate(args[0]))
        if p == "std::iter::traits::iterator::Iterator::filter":
            return ("iter", [x for x in self.iterate(recv) if self.truth(self.apply(args[0], [x]))])
        if p == "std::iter::traits::iterator::Iterator::find":
            for x in self.iterate(recv):
                if self.truth(self.apply(args[0], [x])):
                    return ("Some", x)
            return "None"
        if nm in ("cmp", "partial_cmp") and len(args) == 1 and (p.endswith("::cmp") or p.endswith("::partial_cmp")) and p.startswith(("std::cmp::", "core::cmp::", "std::str::", "std::string::", "std::slice::", "std::vec::", "std::tuple::", "std::collections::")):
            a_, b_ = recv, args[0]
            try:
                o = "Less" if a_ < b_ else "Greater" if a_ > b_ else "Equal"
            except TypeError:
                raise Unsupported("cmp of incomparable / abstract values")
            r_ = ("variant", "std::cmp::Ordering::" + o)
            return ("Some", r_) if nm == "partial_cmp" else r_
        if p.startswith("std::cmp::Ordering::") and nm in ("then_with", "then", "reverse", "is_eq", "is_ne", "is_lt", "is_gt", "is_le", "is_ge") and isinstance(recv, tuple) and recv[0] == "variant":
            o = recv[1].split("::")[-1]
            if nm == "then_with":
                return recv if o != "Equal" else self.apply(args[0], [])
            if nm == "then":
                return recv if o != "Equal" else args[0]
            if nm == "reverse":
                return ("variant", "std::cmp::Ordering::" + {"Less": "Greater", "Greater": "Less", "Equal": "Equal"}[o])
            return {"is_eq": o == "Equal", "is_ne": o != "Equal", "is_lt": o == "Less", "is_gt": o == "Greater", "is_le": o != "Greater", "is_ge": o != "Less"}[nm]
        if p.startswith("std::slice::<impl [T]>::") and nm in ("sort_by", "sort_unstable_by") and isinstance(recv, list):
            import functools

            def cmpf(x, y):
                r = self.apply(args[0], [x, y])
                o = r[1].split("::")[-1] if isinstance(r, tuple) and r[0] == "variant" else None
                if o not in ("Less", "Equal", "Greater"):
                    raise Unsupported("sort_by comparator result")
                return {"Less": -1, "Equal": 0, "Greater": 1}[o]
            recv.sort(key=functools.cmp_to_key(cmpf))
            return ()
        if p.startswith("std::slice::<impl [T]>::") and nm in ("sort_by_key", "sort_unstable_by_key", "sort_by_cached_key") and isinstance(recv, list):
            try:
                recv.sort(key=lambda x: self.apply(args[0], [x]))
            except TypeError:
                raise Unsupported("sort_by_key over abstract keys")
            return ()
        if p.startswith("std::slice::<impl [T]>::") and nm == "windows" and isinstance(recv, list) and isinstance(args[0], int):
            k_ = args[0]
            return ("iter", [recv[i:i + k_] for i in range(0, len(recv) - k_ + 1)])
        if p.startswith("std::slice::<impl [T]>::") and nm in ("first", "last") and isinstance(recv, list):
            return ("Some", recv[0 if nm == "first" else -1]) if recv else "None"
        if p == "std::iter::traits::iterator::Iterator::for_each":
            for x in self.iterate(recv):
                self.apply(args[0], [x])
            return ()
        if p in ("std::iter::traits::iterator::Iterator::cloned", "std::iter::traits::iterator::Iterator::copied", "std::iter::traits::iterator::Iterator::by_ref",
                 "std::iter::traits::iterator::Iterator::peekable", "std::iter::traits::iterator::Iterator::fuse"):
            return ("iter", [x.get() if isinstance(x, Ref) else x for x in self.iterate(recv)])
        if p == "std::iter::traits::iterator::Iterator::skip" and isinstance(args[0], int):
            return ("iter", self.iterate(recv)[args[0]:])
        if p == "std::iter::traits::iterator::Iterator::take" and isinstance(args[0], int):
            return ("iter", self.iterate(recv)[:args[0]])
        if p == "std::iter::traits::iterator::Iterator::last":
            xs = self.iterate(recv)
            return ("Some", xs[-1]) if xs else "None"
        if p == "std::iter::traits::iterator::Iterator::sum":
            xs = self.iterate(recv)
            if all(isinstance(x, int) and not isinstance(x, bool) for x in xs):
                return sum(xs)
            raise Unsupported("sum of abstract values")
        if p in ("std::iter::traits::iterator::Iterator::max", "std::iter::traits::iterator::Iterator::min"):
            xs = self.iterate(recv)
            if not xs:
                return "None"
            if all(isinstance(x, int) and not isinstance(x, bool) for x in xs):
                return ("Some", max(xs) if p.endswith("max") else min(xs))
            raise Unsupported("max/min of abstract values")
        if p == "std::iter::traits::iterator::Iterator::take_while":
            out = []
            for x in self.iterate(recv):
                if not self.truth(self.apply(args[0], [x])):
                    break
                out.append(x)
            return ("iter", out)
        if p == "std::iter::traits::iterator::Iterator::skip_while":
            xs = self.iterate(recv)
            i = 0
            while i < len(xs) and self.truth(self.apply(args[0], [xs[i]])):
                i += 1
            return ("iter", xs[i:])
        if p == "std::iter::traits::iterator::Iterator::collect":
            items = list(self.iterate(recv))
            rty = m.get("ty") or ""
            if rty.startswith("std::result::Result<"):
                # collecting Results stops at the first error
                for x in items:
                    if isinstance(x, tuple) and x and x[0] == "Err":
                        return x
                if all(isinstance(x, tuple) and x and x[0] == "Ok" for x in items):
                    return ("Ok", [x[1] for x in items])
                raise Unsupported("collect into Result of non-Result items")
            if rty.startswith("std::option::Option<"):
                if any(x == "None" for x in items):
                    return "None"
                return ("Some", [x[1] for x in items])
            if rty.startswith("std::collections::BTreeMap") or rty.startswith("std::collections::btree::map::BTreeMap"):
                bt = BTree()
                for k, v in items:
                    if not isinstance(k, int):
                        raise Unsupported("abstract map key")
                    bt.d[k] = v
                return bt
            return items
        if p == "std::iter::traits::iterator::Iterator::try_for_each":
            for x in self.iterate(recv):
                r = self.apply(args[0], [x])
                if isinstance(r, tuple) and r and r[0] == "Err":
                    return r
                if r == "None":
                    return "None"
            return ("Ok", ()) if not (m.get("ty") or "").startswith("std::option::Option") else ("Some", ())
        if p == "std::iter::traits::iterator::Iterator::try_fold":
            acc = args[0]
            for x in self.iterate(recv):
                r = self.apply(args[1], [acc, x])
                if isinstance(r, tuple) and r and r[0] == "Err" or r == "None":
                    return r
                acc = r[1]
            return ("Ok", acc) if not (m.get("ty") or "").startswith("std::option::Option") else ("Some", acc)
        if p == "std::iter::traits::iterator::Iterator::find_map":
            for x in self.iterate(recv):
                r = self.apply(args[0], [x])
                if r != "None":
                    return r
            return "None"
        if p == "std::iter::traits::iterator::Iterator::map_while":
            out = []
            for x in self.iterate(recv):
                r = self.apply(args[0], [x])
                if r == "None":
                    break
                out.append(r[1])
            return ("iter", out)
        if p == "std::iter::traits::iterator::Iterator::inspect":
            items = list(self.iterate(recv))
            for x in items:
                self.apply(args[0], [x])
            return ("iter", items)
        if p == "std::iter::traits::iterator::Iterator::nth" and isinstance(args[0], int):
            items = list(self.iterate(recv))
            return ("Some", items[args[0]]) if args[0] < len(items) else "None"
        if p == "std::iter::traits::iterator::Iterator::step_by" and isinstance(args[0], int) and args[0] > 0:
            return ("iter", list(self.iterate(recv))[::args[0]])
        if p == "std::iter::traits::iterator::Iterator::product":
            acc = 1
            for x in self.iterate(recv):
                if not isinstance(x, int):
                    raise Unsupported("product of abstract values")
                acc *= x
            return acc
        if p == "std::iter::traits::iterator::Iterator::unzip":
            items = list(self.iterate(recv))
            return ([a for a, _b in items], [b for _a, b in items])
        if p in ("std::iter::traits::iterator::Iterator::max_by_key", "std::iter::traits::iterator::Iterator::min_by_key"):
            items = list(self.iterate(recv))
            if not items:
                return "None"
            keys = [self.apply(args[0], [x]) for x in items]
            if not all(isinstance(k, int) for k in keys):
                raise Unsupported("ordering of abstract keys")
            best = 0
            for i, k in enumerate(keys):
                if (nm == "max_by_key" and k >= keys[best]) or (nm == "min_by_key" and k < keys[best]):
                    best = i
            return ("Some", items[best])
        if p == "std::iter::traits::iterator::Iterator::position":
            for i, x in enumerate(self.iterate(recv)):
                if self.truth(self.apply(args[0], [x])):
                    return ("Some", i)
            return "None"
        if p == "std::result::Result::<T, E>::ok":
            return ("Some", recv[1]) if isinstance(recv, tuple) and recv[0] == "Ok" else "None"
        if p == "std::iter::traits::iterator::Iterator::count":
            return len(self.iterate(recv))
        if p.startswith("std::slice::<impl [T]>::") and nm in ("sort_unstable", "sort") and isinstance(recv, list):
            try:
                recv.sort()
            except TypeError:
                raise Unsupported("sort of abstract values")
            return ()
        if p == "std::option::Option::<T>::map":
            if recv == "None":
                return "None"
            return ("Some", self.apply(args[0], [recv[1]]))
        if p.startswith(("std::f32::<impl f32>::", "std::f64::<impl f64>::")) and nm == "abs" and not args:
            if isinstance(recv, FDiff):
                return recv
            if isinstance(recv, (int, float)) and not isinstance(recv, bool):
                return abs(recv)
        if p.startswith("std::f32::<impl f32>::") and nm in ("to_le_bytes", "to_be_bytes"):
            sl = to_wide(recv, 4).slots
            return sl if nm == "to_le_bytes" else sl[::-1]
        if p.startswith("std::slice::<impl [T]>::") and nm == "iter_mut":
            return ("itermut", recv)
        r, _ = self.find_fn(p, self.crate)
        if r is not None:
            return self.call_fn(p, [recv] + args)
        for suffix, f in getattr(self, "overrides", {}).items():
            if p.endswith(suffix):
                # a trait method without a body (decided by the override of the caller)
                return f([recv] + args, n) if getattr(f, "with_node", False) else f([recv] + args)
        raise Unsupported(f"method {p}")
