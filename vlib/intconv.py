"""Semantic normal forms for the integer-conversion idioms of generated TryFrom/From impls (C11-D3, C12-D3).

An expression over the parameter `value` is evaluated to one of
  ("V",)                          the parameter itself
  ("widen", x, T)                 x.into() / T::from(x): lossless by the type system
  ("reinterp", x, T)              T::from_le_bytes(x.to_le_bytes()) (same width, bit for bit)
  ("checked", x, T, err)          TryInto::<T>::try_into(x).map_err(|_| err)?  (fails iff not representable)
  ("cast", x, T)                  `x as T`
  ("enumerr", name_const, x)      EnumError::new(NAME, x)
  ("call", path, [args])          other resolved call
  ("unknown", text)
"""
from . import hir as H

INT_TYPES = {
    "u8": (8, False), "u16": (16, False), "u32": (32, False), "u64": (64, False), "u128": (128, False),
    "i8": (8, True), "i16": (16, True), "i32": (32, True), "i64": (64, True), "i128": (128, True),
    "usize": (64, False), "isize": (64, True),
}


def lossless(src, dst):
    """Every value of src representable in dst (usize treated as 64 bit for `as` casts only)."""
    (sb, ss), (db, ds) = INT_TYPES[src], INT_TYPES[dst]
    if ss == ds:
        return sb <= db
    if not ss and ds:
        return sb < db
    return False


def ev(n, env):
    n = H.strip(n)
    t = H.tag(n)
    if t == "local":
        return env.get(n[1], ("unknown", n[1]))
    if t == "try":
        inner = ev(n[1], env)
        if inner[0] == "checked?":
            return ("checked",) + inner[1:]
        return ("try", inner)
    if t == "cast":
        return ("cast", ev(n[4], env), n[3], n[2])
    if t == "path":
        return ("const", n[1])
    if t == "call":
        p = H.call_path(n)
        args = H.call_args(n)
        ga = H.call_gargs(n)
        if p == "std::convert::TryInto::try_into" and len(args) == 1 and len(ga) == 2:
            return ("tryinto", ev(args[0], env), ga[1], ga[0])
        if p == "std::convert::From::from" and len(args) == 1 and len(ga) == 2:
            return ("widen", ev(args[0], env), ga[0])
        if p and p.endswith("::from_le_bytes") and len(args) == 1:
            a = H.strip(args[0])
            if H.is_mcall(a) and H.mcall(a)["name"] == "to_le_bytes":
                mc = H.mcall(a)
                ty = p.split("<impl ")[1].split(">")[0] if "<impl " in p else "?"
                return ("reinterp", ev(mc["recv"], env), ty, mc["recv_ty"])
        if p and p.endswith("::errors::EnumError::new") and len(args) == 2:
            return ("enumerr", ev(args[0], env), ev(args[1], env))
        return ("call", p, [ev(a, env) for a in args])
    if t == "mcall":
        mc = H.mcall(n)
        if mc["path"] == "std::convert::Into::into" and len(mc["gargs"]) == 2:
            return ("widen", ev(mc["recv"], env), mc["gargs"][1])
        if mc["path"] == "std::convert::TryInto::try_into" and len(mc["gargs"]) == 2:
            return ("tryinto", ev(mc["recv"], env), mc["gargs"][1], mc["gargs"][0])
        if mc["name"] == "ok" and mc["path"].endswith("Result::<T, E>::ok") and not mc["args"]:
            inner = ev(mc["recv"], env)
            if inner[0] == "tryinto":
                return ("tryinto-opt", inner[1], inner[2], inner[3])
            return ("unknown", H.short(n))
        if mc["name"] == "ok_or" and mc["path"].endswith("Option::<T>::ok_or") and len(mc["args"]) == 1:
            inner = ev(mc["recv"], env)
            if inner[0] == "tryinto-opt":
                return ("checked?", inner[1], inner[2], ev(mc["args"][0], env))
            return ("unknown", H.short(n))
        if mc["name"] == "map_err" and mc["path"].endswith("Result::<T, E>::map_err") and len(mc["args"]) == 1:
            inner = ev(mc["recv"], env)
            clo = H.strip(mc["args"][0])
            if inner[0] == "tryinto" and H.tag(clo) == "closure":
                # closure must ignore its argument
                prm = clo[2]
                if len(prm) == 1 and H.tag(prm[0]) == "wild":
                    err = ev(clo[3], env)
                    return ("checked?", inner[1], inner[2], err)
            return ("unknown", H.short(n))
        return ("mcall", mc["path"], ev(mc["recv"], env), [ev(a, env) for a in mc["args"]], mc["gargs"])
    if t == "block":
        env = dict(env)
        for s in n[1]:
            if s[0] == "let" and H.tag(s[1]) == "bind" and s[2] is not None:
                env[s[1][1]] = ev(s[2], env)
            else:
                return ("unknown", H.short(n))
        if n[2] is None:
            return ("unknown", H.short(n))
        return ev(n[2], env)
    if t == "lit":
        return ("lit", n[2])
    return ("unknown", H.short(n))


# ----------------------------------------------------------------------------------------------
# denotation of a conversion term as a piecewise-affine partial function on the integers
# ----------------------------------------------------------------------------------------------
def int_range(t):
    bits, signed = INT_TYPES[t]
    return (-(1 << (bits - 1)), (1 << (bits - 1)) - 1) if signed else (0, (1 << bits) - 1)


class ConvError(Exception):
    pass


def _split(pieces, lo, hi):
    """Split pieces so that each lies entirely inside or outside [lo,hi] (in terms of current value v+off)."""
    out = []
    for (a, b, off, st) in pieces:
        if st != "ok":
            out.append((a, b, off, st))
            continue
        cuts = [a]
        for c in (lo - off, hi + 1 - off):
            if a < c <= b:
                cuts.append(c)
        cuts = sorted(set(cuts))
        for i, s in enumerate(cuts):
            e = (cuts[i + 1] - 1) if i + 1 < len(cuts) else b
            out.append((s, e, off, st))
    return out


def denote(term, S):
    """-> (pieces, type).  pieces: [(lo, hi, offset, 'ok'|'err')] partition of S's range."""
    k = term[0]
    if k == "V":
        lo, hi = int_range(S)
        return [(lo, hi, 0, "ok")], S
    if k == "widen":
        p, t = denote(term[1], S)
        if term[2] not in INT_TYPES:
            raise ConvError(f"widen to non-integer {term[2]}")
        if not lossless(t, term[2]) :
            raise ConvError(f"From<{t}> for {term[2]} is not a lossless integer conversion")
        return p, term[2]
    if k == "reinterp":
        p, t = denote(term[1], S)
        T = term[2]
        if T not in INT_TYPES or INT_TYPES[T][0] != INT_TYPES[t][0]:
            raise ConvError(f"from_le_bytes(to_le_bytes()) between {t} and {T} of different width")
        w = INT_TYPES[T][0]
        lo, hi = int_range(T)
        p = _split(p, lo, hi)
        out = []
        for (a, b, off, st) in p:
            if st == "ok":
                cur = a + off
                if cur < lo:
                    off += 1 << w
                elif cur > hi:
                    off -= 1 << w
            out.append((a, b, off, st))
        return out, T
    if k == "checked":
        p, t = denote(term[1], S)
        T = term[2]
        if T not in INT_TYPES:
            raise ConvError(f"checked narrowing to non-integer {T}")
        lo, hi = int_range(T)
        p = _split(p, lo, hi)
        out = []
        for (a, b, off, st) in p:
            if st == "ok" and not (lo <= a + off and b + off <= hi):
                st = "err"
            out.append((a, b, off, st))
        return out, T
    if k == "cast":
        p, t = denote(term[1], S)
        T = term[2]
        if T in INT_TYPES and t in INT_TYPES and lossless(t, T):
            return p, T
        raise ConvError(f"`as` cast {t} as {T} is not value preserving")
    raise ConvError(f"unrecognised conversion step {term}")


def judge(pieces, S, B):
    """None if the pieces denote the specified conversion S -> B: value preserving (Ok exactly on the values
    representable in B), or the bit-for-bit reinterpretation when S and B have the same width and differ in sign."""
    sb, ss = INT_TYPES[S]
    bb, bs = INT_TYPES[B]
    blo, bhi = int_range(B)
    same_width = sb == bb and ss != bs and S not in ("usize", "isize")
    for (a, b, off, st) in pieces:
        if same_width:
            if st != "ok":
                return f"{S}->{B} must be a bit-for-bit reinterpretation but values {a}..{b} are rejected"
            exp = 0
            if a < blo:
                exp = 1 << bb
            elif b > bhi:
                exp = -(1 << bb)
            if off != exp:
                return f"{S}->{B}: values {a}..{b} are not reinterpreted bit for bit (offset {off}, expected {exp})"
            continue
        inside = blo <= a and b <= bhi
        outside = b < blo or a > bhi
        if st == "ok":
            if off != 0:
                return f"{S}->{B}: values {a}..{b} are accepted but changed by {off:+d} (not value preserving)"
            if not inside:
                return f"{S}->{B}: values {a}..{b} accepted although not representable in {B}"
        else:
            if not outside:
                return f"{S}->{B}: values {max(a, blo)}..{min(b, bhi)} are representable in {B} but rejected"
    return None


def error_payloads(term):
    """All err payload terms of checked steps inside term."""
    out = []
    if isinstance(term, tuple):
        if term[0] == "checked":
            out.append(term[3])
        for x in term[1:]:
            out += error_payloads(x)
    return out
