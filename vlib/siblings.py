"""Sibling agreement: normalise typed-HIR bodies so that the sync / tokio / async-std copies (and encrypted / plain
twins) of one function compare equal exactly when they differ only by `.await`, the flavour prefix of helper names,
and the flavour's I/O trait."""
import re

from . import hir as H

_SPAN = re.compile(r"^\d+:\d+$")
_FLAV = re.compile(r"\b(?:tokio_|astd_)")
_IO_TRAITS = [
    (re.compile(r"^(?:std::io::Read|tokio::io::(?:util::async_read_ext::)?AsyncReadExt|async_std::io::(?:read::)?ReadExt|futures_lite::io::AsyncReadExt|futures_util::io::AsyncReadExt)::"), "IoRead::"),
    (re.compile(r"^(?:std::io::Write|tokio::io::(?:util::async_write_ext::)?AsyncWriteExt|async_std::io::(?:write::)?WriteExt|futures_lite::io::AsyncWriteExt|futures_util::io::AsyncWriteExt)::"), "IoWrite::"),
]


def norm_path(p):
    if not isinstance(p, str):
        return p
    for rx, rep in _IO_TRAITS:
        p2 = rx.sub(rep, p)
        if p2 != p:
            return p2
    p = p.replace("::tokio_impl::", "::").replace("::async_std_impl::", "::").replace("::functions::base::", "::").replace("::functions::shared::", "::")
    p = _FLAV.sub("", p)
    return p


_DROP_GARG = re.compile(r"^(?:&mut )?&?(?:mut )?(?:R|W|S)$|^'|closure@|^impl |^&mut impl |^&mut &\[u8\]$")


def norm_gargs(gs):
    return [norm_ty(g) for g in gs if not _DROP_GARG.search(g)]


def norm_ty(t):
    if not isinstance(t, str):
        return t
    if "Future" in t or "tokio::io::util" in t or "async_std::io" in t or "futures_" in t:
        return "<async>"
    return norm_path(t)


def norm(n, drop_types=True):
    """Normalised copy of a HIR node."""
    t = H.tag(n)
    if t is None:
        if isinstance(n, list):
            return [norm(x) for x in n]
        return n
    if t == "await":
        return norm(n[1])
    if t == "mac":
        return ["mac", n[1], norm(n[2])]
    if t == "call":
        f = H.strip(n[2])
        # Box::pin(async move { body }) -> body
        if H.tag(f) == "path" and f[1].endswith("::Box::<T>::pin") and len(n[3]) == 1:
            a = H.strip(n[3][0])
            if H.tag(a) == "closure" and "Coroutine" in a[1]:
                return norm(H.unwrap_async(a))
        return ["call", norm(n[2]), [norm(a) for a in n[3]]]
    if t == "mcall":
        return ["mcall", _FLAV.sub("", n[2]), norm_path(n[3]), norm_gargs(n[4]), norm(n[6]), [norm(a) for a in n[7]]]
    if t == "path":
        return ["path", norm_path(n[1]), n[2].split(" ")[0], norm_gargs(n[3])]
    if t == "closure":
        if "Coroutine" in n[1]:
            return norm(H.unwrap_async(n))
        return ["closure", [norm(p) for p in n[2]], norm(n[3])]
    if t == "bind":
        return ["bind", n[1], n[2], n[3], norm(n[5]) if n[5] else None]
    if t == "lit":
        return ["lit", n[1], n[2]]
    if t == "cast":
        return ["cast", n[2], n[3], norm(n[4])]
    if t in ("bin", "asgop"):
        return [t, n[2], norm(n[4]), norm(n[5])]
    if t == "un":
        return ["un", n[2], norm(n[4])]
    if t == "idx":
        return ["idx", norm(n[3]), norm(n[4])]
    if t == "struct":
        return ["struct", norm_path(n[1]), [[f[0], norm(f[1])] for f in n[2]], norm(n[3]) if n[3] else None]
    if t == "match":
        return ["match", norm(n[1]), [[norm(a[0]), norm(a[1]) if a[1] else None, norm(a[2])] for a in n[3]]]
    if t == "repeat":
        return ["repeat", norm_ty(n[1]), norm(n[2])]
    if t == "array":
        return ["array", [norm(x) for x in n[1]]]
    if t in ("ts", "ps", "ppath"):
        out = [t, norm_path(n[1])]
        for x in n[2:]:
            out.append(norm(x) if isinstance(x, list) else x)
        return out
    if t == "block":
        stmts = [norm(x) for x in n[1]]
        tail = norm(n[2]) if n[2] is not None else None
        # `{ <block> }` and wrappers that only contain a block collapse
        if not stmts and tail is not None:
            return tail
        return ["block", stmts, tail]
    if t in ("ref", "refmut") and H.tag(H.strip(n[1])) == "local":
        # passing `r` or `&mut r` for a reader parameter is the same transport
        return norm(n[1])
    out = [t]
    for x in n[1:]:
        if isinstance(x, list):
            out.append(norm(x))
        elif isinstance(x, str) and _SPAN.match(x):
            continue
        else:
            out.append(x)
    return out


def body(fn):
    return norm(H.unwrap_async(fn["hir"]))


def first_diff(a, b, path=""):
    """Human-readable location of the first difference between two normalised trees."""
    if type(a) != type(b):
        return f"{path}: {short(a)} vs {short(b)}"
    if isinstance(a, list):
        if len(a) != len(b):
            ta = a[0] if a and isinstance(a[0], str) else "list"
            return f"{path}/{ta}: {len(a)} vs {len(b)} elements: {short(a)} vs {short(b)}"
        for i, (x, y) in enumerate(zip(a, b)):
            if x != y:
                tag = a[0] if a and isinstance(a[0], str) and i > 0 else ""
                return first_diff(x, y, f"{path}/{tag}[{i}]" if tag else f"{path}[{i}]")
        return None
    if a != b:
        return f"{path}: {a!r} vs {b!r}"
    return None


def short(x, n=160):
    s = repr(x)
    return s if len(s) <= n else s[:n] + "…"
