"""Semantic comparison of flavour siblings (C06 twin.flavours fallback): when the blocking and the tokio / async-std copy of a
hand-written function are not the same tree after normalisation, both are interpreted (vlib/minieval.py) on the same abstract
inputs and must agree on everything observable: the returned value, the number of bytes taken from the reader, the bytes handed to
the writer, and the sequence of calls to required trait methods (decoders / encoders of a generic message type), which are
observation points.  Inputs are one stream per path class of the byte-level helpers (no zero byte / a zero byte early / a zero byte
first / concrete opcode bytes equal and unequal to M::OPCODE / a stream that ends early / an empty stream) crossed with
representative values of every other parameter (integers 0, 1, 5, type maximum; every variant of a fieldless enum)."""
import itertools
import re

from . import hir as H
from .intconv import INT_TYPES
from .minieval import Mini, Stream, Sink, Tok, Unsupported, Panic
from .prims import strip_flavour

READER_TY = re.compile(r"^(&mut )?(R|impl .*Read.*)$")
WRITER_TY = re.compile(r"^(&mut )?(W|impl .*Write.*)$")
OPCODE = 0x12


def _streams():
    """-> list of (description, token list); tokens are shared by both runs so results compare by identity"""
    n = [5000]

    def toks(k, cls="any"):
        out = [Tok(n[0] + i, cls) for i in range(k)]
        n[0] += k
        return out
    return [
        ("300 non-zero bytes", toks(300, "nz")),
        ("3 non-zero bytes, a zero byte, 40 more bytes", toks(3, "nz") + toks(1, "z") + toks(40, "nz")),
        ("a zero byte first", toks(1, "z") + toks(40, "nz")),
        ("opcode byte equal to M::OPCODE, then 60 bytes", [OPCODE] + toks(60, "nz")),
        ("opcode byte different from M::OPCODE", [OPCODE + 1] + toks(60, "nz")),
        ("zero opcode byte", [0] + toks(60, "nz")),
        ("two bytes, then the end of the stream", toks(2, "nz")),
        ("an empty stream", []),
    ]


def _deref(x):
    while isinstance(x, tuple) and len(x) == 2 and x[0] in ("ref", "refmut"):
        x = x[1]
    return x


def _param_values(F, ty):
    """-> ('reader'|'writer'|'values', [values])"""
    t = ty.strip()
    if READER_TY.match(t):
        return "reader", None
    if WRITER_TY.match(t):
        return "writer", None
    t0 = t.replace("&mut ", "").lstrip("&")
    if t0 in INT_TYPES:
        bits, signed = INT_TYPES[t0][0], t0.startswith("i")
        hi = (1 << (bits - 1)) - 1 if signed else (1 << bits) - 1
        return "values", sorted({0, 1, 5, min(255, hi), hi})
    if t0 == "bool":
        return "values", [False, True]
    a = F.adt(t0)
    if a is not None and a["kind"] == "Enum" and all(not v[2] for v in a["variants"]) and len(a["variants"]) <= 12:
        from .world import gpath
        return "values", [("variant", gpath(F.crate, t0) + "::" + v[0]) for v in a["variants"]]
    raise Unsupported(f"parameter type {ty}")


def _observation_points(F, fns):
    """required trait methods (declared without a body) called by the functions: path -> flavour-neutral name"""
    out = {}
    for fn in fns:
        for x in H.walk(fn["hir"]):
            p = None
            if H.tag(x) == "call":
                p = H.call_path(x)
            elif H.tag(x) == "mcall":
                p = H.mcall(x)["path"]
            if not p or not p.startswith(("crate::", "<")):
                continue
            callee = F.fn(p)
            if callee is not None and callee.get("hir") is None:
                out[p] = strip_flavour(p.split("::")[-1])[0]
    return out


def _run(FB, crate, fn, args, obs, log):
    m = Mini(FB, crate)
    m.consts = {"crate::Message::OPCODE": OPCODE, "crate::traits::Message::OPCODE": OPCODE}
    ov = {}
    for p, name in obs.items():
        def f(a, name=name):
            streams = [x for x in map(_deref, a) if isinstance(x, (Stream, Sink))]
            where = [(s.pos if isinstance(s, Stream) else len(s.out)) for s in streams]
            log.append((name, where, [x for x in map(_deref, a) if not isinstance(x, (Stream, Sink))]))
            return ("Ok", ("observed", name, len(log)))
        ov[p] = f
    m.overrides = ov
    res = m.call_fn(fn["path"], args)
    if isinstance(res, tuple) and res and res[0] == "closure":
        res = m.apply(res, [])
    return res


FORBIDDEN = re.compile(r"(^|::)(poll_fn|poll_\w+|poll|Poll|Context|Waker|RawWaker|Pin|pin_mut|select\w*|spawn\w*|block_on|timeout\w*|sleep\w*|interval\w*|yield_now|try_join\w*|join\w*|race\w*|"
                       r"FutureExt|StreamExt|TryFutureExt|now_or_never|noop_waker\w*|from_fn|unfold|oneshot|mpsc|Notify|Mutex|RwLock|Semaphore)(::|<|$)")
IO_OK = {"read_exact", "write_all", "flush", "read_u8", "read_i8", "read_u16", "read_u16_le", "read_u32", "read_u32_le", "read_u64", "read_u64_le",
         "read_i16_le", "read_i32_le", "read_i64_le", "read_i32", "read_f32", "read_f32_le"}


def async_plain(F, fn, seen=None, depth=0):
    """The interpretation treats `.await` as a plain call on an always-ready transport. That is representative of every chunking and
    every Pending interleaving only for *plain sequential* async code: each awaited thing is a call of a crate function (checked the same
    way, transitively), of a required trait method, or of a read_exact-class method of the I/O extension traits (whose contract is
    chunk-insensitive: io.exact-only checks every transport call of the crates); nothing polls by hand, pins, selects, spawns, times out
    or builds its own future.  -> None when plain, else the construct found"""
    seen = seen if seen is not None else set()
    if fn["path"] in seen or depth > 6:
        return None
    seen.add(fn["path"])
    lets = {}
    for x in H.walk(fn["hir"]):
        if isinstance(x, list) and x and x[0] == "let" and H.tag(x[1]) == "bind" and x[2] is not None:
            lets[x[1][1]] = x[2]
    for x in H.walk(fn["hir"]):
        t = H.tag(x)
        p = None
        if t == "call":
            p = H.call_path(x)
        elif t == "mcall":
            p = H.mcall(x)["path"]
        elif t == "path":
            p = x[1]
        if p:
            if p.endswith("Box::<T>::pin") or p.endswith("Box::pin"):
                pass
            elif FORBIDDEN.search(re.sub(r"<[^<>]*>", "", p)) and not p.startswith(("crate::", "<crate::")):
                return f"{fn['path']} uses {p}"
            if t in ("call", "mcall") and p.startswith(("crate::", "<crate::", "<")):
                callee = F.fn(p)
                if callee is not None and callee.get("hir") is not None:
                    r = async_plain(F, callee, seen, depth + 1)
                    if r:
                        return r
        if t == "await":
            e = H.strip(x[1])
            if H.tag(e) == "local" and e[1] in lets:
                e = H.strip(lets[e[1]])
            while H.tag(e) in ("try", "mac"):
                e = H.strip(e[1] if H.tag(e) == "try" else e[2])
            if H.tag(e) == "call":
                q = H.call_path(e) or ""
            elif H.tag(e) == "mcall":
                q = H.mcall(e)["path"]
            else:
                return f"{fn['path']} awaits something that is not a call: {H.short(e, maxlen=60)}"
            if q.startswith(("crate::", "<crate::", "<")) or q.split("::")[-1] in IO_OK and re.search(r"(Read|Write)Ext::", q):
                continue
            return f"{fn['path']} awaits {q}"
        if t == "impl" or (t == "closure" and False):
            return f"{fn['path']} defines an impl"
    return None


def sibling_semantic(g, crate, a, b):
    """a: blocking copy, b: async copy (fn records). -> (None, runs) when they agree on every scenario, (message, runs) when one
    scenario tells them apart; raises Unsupported / Panic when a body is outside the interpreter."""
    F = g.f(crate)
    FB = {c: g.f(c) for c in (("wow_world_messages", "wow_world_base") if crate != "wow_login_messages" else ("wow_login_messages",))}
    if len(a["inputs"]) != len(b["inputs"]):
        return f"{len(a['inputs'])} parameters vs {len(b['inputs'])}", 0
    kinds = []
    for ty in a["inputs"]:
        kinds.append(_param_values(F, ty))
    if not any(k == "reader" for k, _ in kinds) and not any(k == "writer" for k, _ in kinds):
        raise Unsupported("no reader or writer parameter")
    np_ = async_plain(F, b)
    if np_:
        raise Unsupported("the async copy is not plain sequential async code: " + np_)
    obs = _observation_points(F, [a, b])
    value_axes = [v for k, v in kinds if k == "values"]
    runs = 0
    skipped = []
    stream_axis = _streams() if any(k == "reader" for k, _ in kinds) else [("-", [])]
    for desc, toks in stream_axis:
        for combo in itertools.product(*value_axes) if value_axes else [()]:
            outs = []
            for fn in (a, b):
                it = iter(combo)
                args, st, sk = [], None, None
                for k, _ in kinds:
                    if k == "reader":
                        st = Stream(toks)
                        args.append(st)
                    elif k == "writer":
                        sk = Sink()
                        args.append(sk)
                    else:
                        args.append(next(it))
                log = []
                try:
                    res = _run(FB, crate, fn, args, obs, log)
                except Panic as e:
                    res = ("panic", str(e)[:80])
                except Unsupported as e:
                    # e.g. an abstract byte compared with a constant: this input class says nothing about this function
                    outs.append(("unsupported", str(e)))
                    continue
                outs.append((res, st.pos if st else None, list(sk.out) if sk else None, log))
            if all(o[0] == "unsupported" for o in outs):
                skipped.append(outs[0][1])
                continue
            if any(o[0] == "unsupported" for o in outs):
                raise Unsupported(next(o[1] for o in outs if o[0] == "unsupported"))
            runs += 1
            (ra, pa, wa, la), (rb, pb, wb, lb) = outs
            what = f"on {desc}" + (f" with arguments {list(combo)}" if combo else "")
            if la != lb:
                return f"{what}: the blocking copy calls {[(x[0], x[1]) for x in la]}, the async copy {[(x[0], x[1]) for x in lb]} (required trait methods, reader / writer position at the call)", runs
            if pa != pb:
                return f"{what}: the blocking copy takes {pa} bytes from the reader, the async copy {pb}", runs
            if wa != wb:
                return f"{what}: the copies hand different bytes to the writer ({len(wa or [])} vs {len(wb or [])})", runs
            if repr(ra) != repr(rb):
                return f"{what}: the blocking copy returns {str(ra)[:90]}, the async copy {str(rb)[:90]}", runs
    if runs < 3:
        raise Unsupported(f"only {runs} input classes could be interpreted ({skipped[:1]})")
    return None, runs
