"""Writer-side header arithmetic (C02-D2 a/c/d/e): abstract interpretation of the world write_* functions with a
piecewise-affine domain in the body length B.  The domain [0, Bmax] is split wherever a comparison, a saturating
subtraction, a narrowing cast or an overflow check changes its outcome, so every piece is evaluated with exact
affine values a*B + b.  Nothing is executed; the interpreter walks the typed HIR."""
from . import hir as H
from .intconv import INT_TYPES, int_range
from .world import gpath


class Split(Exception):
    def __init__(self, point):
        self.point = point


class Abort(Exception):
    """evaluation of this piece ends in a panic/abort (recorded as event)"""


class Unk(Exception):
    pass


class Return(Exception):
    """`return e` - the rest of the enclosing function body is skipped on this piece"""
    def __init__(self, value):
        self.value = value


def aff(a, b, ty):
    return ("aff", a, b, ty)


def is_aff(v):
    return isinstance(v, tuple) and v and v[0] == "aff"


class Piece:
    def __init__(self, lo, hi):
        self.lo, self.hi = lo, hi

    def rng(self, v):
        a, b = v[1], v[2]
        x, y = a * self.lo + b, a * self.hi + b
        return (min(x, y), max(x, y))

    def split_at_value(self, v, c):
        """ensure (v >= c) is uniform over the piece; raise Split otherwise. returns True if v >= c"""
        lo, hi = self.rng(v)
        if lo >= c:
            return True
        if hi < c:
            return False
        a, b = v[1], v[2]
        # smallest B with a*B + b >= c   (a != 0 here)
        if a > 0:
            p = -((b - c) // a)  # ceil((c-b)/a)
            raise Split(p)
        p = (b - c) // (-a) + 1  # first B where value < c
        raise Split(p)


class State:
    def __init__(self):
        self.written = {}  # writer name -> affine bytes written
        self.events = []
        self.sf = None
        self.header_len = None
        self.header_bytes = None
        self.assert_ok = None
        self.enc_calls = 0
        self.transport = None
        self.staged = False  # a staging Vec was flushed to the transport
        self.header_sink = None  # the staging buffer the header array was written into (at offset 0)
        self.srp_hl = None


class WEval:
    def __init__(self, g, crate, expansion, direction):
        self.g, self.crate, self.exp, self.dir = g, crate, expansion, direction
        self.F = g.f(crate)
        self.depth = 0

    # ---- helpers ------------------------------------------------------------------------------
    def const_of(self, path):
        c = self.F.const(path)
        if c is not None and c["val"] is not None:
            return ("aff", 0, int(c["val"]), c["ty"])
        return None

    def check_range(self, v, ty, pc, st, what):
        if ty not in INT_TYPES:
            return v
        lo, hi = int_range(ty)
        inside_hi = not pc.split_at_value(v, hi + 1)
        inside_lo = pc.split_at_value(v, lo)
        if inside_hi and inside_lo:
            return ("aff", v[1], v[2], ty)
        return None

    def cast(self, v, ty, pc, st):
        if not is_aff(v) or ty not in INT_TYPES:
            return v
        r = self.check_range(v, ty, pc, st, "cast")
        if r is not None:
            return r
        # wraps: value mod 2^bits on this piece (uniform window after splitting at multiples)
        bits = INT_TYPES[ty][0]
        m = 1 << bits
        lo, hi = pc.rng(v)
        k = lo // m
        if (hi // m) != k:
            pc.split_at_value(v, (k + 1) * m)
        st.events.append(("truncation", f"`as {ty}` truncates a value in {lo:#x}..{hi:#x}"))
        return ("aff", v[1], v[2] - k * m, ty)

    def arith(self, op, x, y, ty, pc, st):
        if not (is_aff(x) and is_aff(y)):
            raise Unk(f"arithmetic on non-integers {x} {op} {y}")
        if op == "Add":
            r = ("aff", x[1] + y[1], x[2] + y[2], ty)
        elif op == "Sub":
            r = ("aff", x[1] - y[1], x[2] - y[2], ty)
        elif op == "Mul" and (x[1] == 0 or y[1] == 0):
            r = ("aff", x[1] * y[2] + y[1] * x[2], x[2] * y[2], ty)
        else:
            raise Unk(f"operator {op}")
        ok = self.check_range(r, ty, pc, st, op)
        if ok is None:
            lo, hi = pc.rng(r)
            st.events.append(("overflow", f"`{op}` overflows {ty} (value {lo:#x}..{hi:#x}): panics in debug builds, wraps in release"))
            raise Abort()
        return ok

    # ---- expressions ---------------------------------------------------------------------------
    def ev(self, n, env, pc, st):
        mac = None
        while H.tag(n) == "mac":
            mac = n[1]
            n = n[2]
        if mac in ("assert_eq", "debug_assert_eq"):
            return self.assert_eq(n, env, pc, st)
        if mac in ("panic", "unreachable"):
            st.events.append(("panic", "explicit panic"))
            raise Abort()
        if mac in ("assert", "debug_assert") and H.tag(n) == "if" and n[3] is None:
            # assert!(c) expands to `if !c { panic }`: decide c on this piece (splitting where it changes)
            c = self.ev(n[1], env, pc, st)
            if c == ("bool", False):
                return ("unit",)
            if c == ("bool", True):
                inner = H.strip(n[1])
                what = H.short(inner[4] if H.tag(inner) == "un" else inner, maxlen=80)
                st.events.append(("assert", f"assert!({what}) fails"))
                raise Abort()
            raise Unk(f"assert condition {H.short(n[1], maxlen=80)}")
        t = H.tag(n)
        if t in ("try", "await"):
            return self.ev(n[1], env, pc, st)
        if t == "local":
            if n[1] in env:
                return env[n[1]]
            raise Unk(f"local {n[1]}")
        if t == "lit":
            if n[1] == "int":
                return ("aff", 0, int(n[2]), n[3])
            return ("other",)
        if t == "path":
            c = self.const_of(n[1])
            if c is not None:
                return c
            if n[1].endswith("::OPCODE"):
                return ("sym", "opcode")
            return ("other", n[1])
        if t in ("ref", "refmut"):
            return self.ev(n[1], env, pc, st)
        if t == "un":
            v = self.ev(n[4], env, pc, st)
            if n[2] == "Deref":
                return v
            if n[2] == "Not" and v in (("bool", True), ("bool", False)):
                return ("bool", not v[1])
            raise Unk(f"unary {n[2]}")
        if t == "cast":
            v = self.ev(n[4], env, pc, st)
            return self.cast(v, n[3], pc, st)
        if t == "bin":
            op = n[2]
            x = self.ev(n[4], env, pc, st)
            y = self.ev(n[5], env, pc, st)
            if op in ("Add", "Sub", "Mul"):
                return self.arith(op, x, y, n[3], pc, st)
            if op in ("Gt", "Ge", "Lt", "Le", "Eq", "Ne"):
                if not (is_aff(x) and is_aff(y)):
                    raise Unk(f"comparison of {x} and {y}")
                d = ("aff", x[1] - y[1], x[2] - y[2], None)
                if op == "Gt":
                    return ("bool", pc.split_at_value(d, 1))
                if op == "Ge":
                    return ("bool", pc.split_at_value(d, 0))
                if op == "Lt":
                    return ("bool", not pc.split_at_value(d, 0))
                if op == "Le":
                    return ("bool", not pc.split_at_value(d, 1))
                ge0 = pc.split_at_value(d, 0)
                ge1 = pc.split_at_value(d, 1)
                eq = ge0 and not ge1
                return ("bool", eq if op == "Eq" else not eq)
            if op in ("BitOr", "BitAnd"):
                return ("bitop", op, x, y)
            raise Unk(f"operator {op}")
        if t == "tup":
            return ("tuple", [self.ev(x, env, pc, st) for x in n[1]])
        if t == "ret":
            raise Return(self.ev(n[1], env, pc, st) if len(n) > 1 and n[1] is not None else ("unit",))
        if t == "if":
            c = self.ev(n[1], env, pc, st)
            if c == ("bool", True):
                return self.ev(n[2], env, pc, st)
            if c == ("bool", False):
                return self.ev(n[3], env, pc, st) if n[3] is not None else ("unit",)
            raise Unk(f"condition {H.short(n[1], maxlen=80)}")
        if t == "block":
            return self.block(n, env, pc, st)
        if t == "repeat":
            ty = n[1]
            if ty.startswith("[u8; "):
                return ("buf", int(ty[5:-1]), {})
            raise Unk("repeat")
        if t == "array":
            # header assembled as an array literal: [size[0] | 0x80, size[1], ...]
            elems = [self.ev(x, env, pc, st) for x in n[1]]
            return ("buf", len(elems), {i: v for i, v in enumerate(elems)})
        if t == "idx":
            b = self.ev(n[3], env, pc, st)
            rng = H.strip(n[4])
            if b[0] == "vecbuf" and H.tag(rng) in ("struct", "path", "call") and "::Range" in (rng[1] if H.tag(rng) != "call" else (H.call_path(rng) or "")) and "::ops::" in (rng[1] if H.tag(rng) != "call" else (H.call_path(rng) or "")):
                # a sub-slice of a staging buffer: only its length matters for byte accounting
                total = b[2][0]
                flds = {k: self.ev(v, env, pc, st) for k, v in rng[2]} if H.tag(rng) == "struct" else {}
                if H.tag(rng) == "call":  # RangeInclusive::new(a, b)
                    a_ = [self.ev(x, env, pc, st) for x in H.call_args(rng)]
                    flds = {"start": a_[0], "end": self.arith("Add", a_[1], ("aff", 0, 1, "usize"), "usize", pc, st)} if len(a_) == 2 else {}
                start = flds.get("start", ("aff", 0, 0, "usize"))
                end = flds.get("end", total)
                if not (is_aff(start) and is_aff(end)):
                    raise Unk("slice bounds")
                ln = ("aff", end[1] - start[1], end[2] - start[2], "usize")
                if not pc.split_at_value(ln, 0) or pc.split_at_value(("aff", end[1] - total[1], end[2] - total[2], None), 1):
                    st.events.append(("panic", "slice bounds outside the staged bytes"))
                    raise Abort()
                return ("vecbuf", {"slice": True}, [ln])
            i = self.ev(n[4], env, pc, st)
            if is_aff(i) and i[1] == 0 and b[0] in ("bytes", "buf"):
                return ("byte", b, i[2])
            raise Unk("index")
        if t == "asg":
            tgt = H.strip(n[1])
            if H.tag(tgt) == "idx":
                bn = H.local_name(H.strip_refs(tgt[3]))
                i = self.ev(tgt[4], env, pc, st)
                v = self.ev(n[2], env, pc, st)
                if bn in env and env[bn][0] == "buf" and is_aff(i) and i[1] == 0:
                    env[bn][2][i[2]] = v
                    return ("unit",)
                if bn in env and env[bn][0] == "vecbuf" and is_aff(i) and i[1] == 0:
                    env[bn][1][i[2]] = v
                    return ("unit",)
            raise Unk(f"assignment {H.short(n, maxlen=80)}")
        if t == "call":
            return self.call(n, env, pc, st)
        if t == "mcall":
            return self.mcall(n, env, pc, st)
        if t == "tup":
            return ("tuple", [self.ev(x, env, pc, st) for x in n[1]])
        if t == "for":
            it = self.ev(n[2], env, pc, st)
            body = H.strip(n[3])
            stm = body[1] if H.tag(body) == "block" else None
            if it[0] == "srphdr" and stm and len(stm) == 1 and body[2] is None and stm[0][0] in ("semi", "expr") and H.tag(H.strip(stm[0][1])) == "asg":
                a = H.strip(stm[0][1])
                tgt = H.strip(a[1])
                pat = n[1]
                names = [q[1] for q in H.walk(pat) if H.tag(q) == "bind"]
                rhs = H.strip_refs(H.strip(a[2]))
                while H.tag(rhs) == "un" and rhs[2] == "Deref":
                    rhs = H.strip(rhs[4])
                if H.tag(tgt) == "idx" and len(names) == 2 and H.local_name(H.strip(tgt[4])) == names[0] and H.local_name(rhs) == names[1]:
                    bn = H.local_name(H.strip_refs(tgt[3]))
                    if bn in env and env[bn][0] == "vecbuf":
                        for i in range(it[2]):
                            env[bn][1][i] = ("srpbyte", i)
                        st.sf = it[1]
                        st.srp_hl = it[2]
                        return ("unit",)
            raise Unk("for loop")
        if t == "closure":
            return ("closure", n[2], n[3], env)
        if t == "match":
            raise Unk("match")
        raise Unk(f"expression {t}")

    def block(self, n, env, pc, st):
        env2 = env  # shadowing handled by rebinding (bodies are straight-line)
        for s in n[1]:
            if s[0] == "let":
                v = self.ev(s[2], env2, pc, st) if s[2] is not None else ("uninit",)
                if H.tag(s[1]) == "bind":
                    env2[s[1][1]] = v
                elif H.tag(s[1]) == "ptup" and isinstance(v, tuple) and v and v[0] == "tuple" and len(v[1]) == len(s[1][1]) and all(H.tag(q) == "bind" for q in s[1][1]):
                    for q, x in zip(s[1][1], v[1]):
                        env2[q[1]] = x
                elif H.tag(s[1]) == "pslice" and s[1][2] is None and isinstance(v, tuple) and v and v[0] in ("bytes", "buf") and all(H.tag(q) in ("bind", "wild") for q in s[1][1] + s[1][3]):
                    # `let [hi, lo] = x.to_be_bytes();` — each name is the byte at its position
                    for i, q in enumerate(s[1][1] + s[1][3]):
                        if H.tag(q) == "bind":
                            env2[q[1]] = ("byte", v, i)
                else:
                    raise Unk("let pattern")
            elif s[0] in ("semi", "expr"):
                self.ev(s[1], env2, pc, st)
        if n[2] is not None:
            return self.ev(n[2], env2, pc, st)
        return ("unit",)

    def assert_eq(self, n, env, pc, st):
        n = H.strip(n)
        if H.tag(n) == "match" and H.tag(H.strip(n[1])) == "tup":
            a, b = [self.ev(x, env, pc, st) for x in H.strip(n[1])[1]]
            if is_aff(a) and is_aff(b):
                same = (a[1], a[2]) == (b[1], b[2])
                st.assert_ok = same if st.assert_ok is None else (st.assert_ok and same)
                if not same:
                    st.events.append(("assert", f"assert_eq!(size, v.len()) fails: declared {a[1]}*B+{a[2]} but {b[1]}*B+{b[2]} bytes were produced"))
                    raise Abort()
                return ("unit",)
        raise Unk("assert_eq shape")

    def writer_name(self, n, env):
        x = H.strip_refs(n)
        if H.tag(x) == "local" and x[1] in env and env[x[1]][0] in ("writer", "vecbuf"):
            return x[1]
        return None

    def inline(self, fn, args, pc, st):
        if self.depth > 8:
            raise Unk("inlining depth")
        self.depth += 1
        try:
            env = {}
            names = [p[1] for p in fn["params"] if H.tag(p) == "bind"]
            for nm, v in zip(names, args):
                env[nm] = v
            try:
                return self.ev(H.unwrap_async(fn["hir"]), env, pc, st)
            except Return as r:
                return r.value
        finally:
            self.depth -= 1

    def call(self, n, env, pc, st):
        p = H.call_path(n) or ""
        args = H.call_args(n)
        last = p.split("::")[-1]
        callee = H.strip(H.strip(n)[2])
        if H.tag(callee) == "local" and callee[1] in env and env[callee[1]][0] == "closure" and len(env[callee[1]]) == 4:
            # a closure handed in as a parameter (`write_header(&mut v, opcode, size)`): its body runs in the environment it captured,
            # with writer arguments aliased to the caller's buffers
            _c, params, body, cenv = env[callee[1]]
            inner = dict(cenv)
            for q, a in zip(params, args):
                if H.tag(q) != "bind":
                    raise Unk("closure parameter pattern")
                wn = self.writer_name(a, env)
                inner[q[1]] = ("walias", wn, env) if wn else self.ev(a, env, pc, st)
            if self.depth > 8:
                raise Unk("inlining depth")
            self.depth += 1
            try:
                try:
                    return self.ev(body, inner, pc, st)
                except Return as r:
                    return r.value
            finally:
                self.depth -= 1
        if last == "with_capacity":
            try:
                self.ev(args[0], env, pc, st)
            except Unk:
                pass  # a capacity hint has no effect on the bytes written
            return ("vecbuf", {}, [("aff", 0, 0, "usize")])
        if last in ("Ok", "Some"):
            return self.ev(args[0], env, pc, st) if args else ("unit",)
        if p in ("std::convert::From::from", "std::convert::Into::into") and len(args) == 1:
            ga = H.call_gargs(n)
            if len(ga) >= 2 and ga[0] in INT_TYPES and ga[1] in INT_TYPES:
                return self.cast(self.ev(args[0], env, pc, st), ga[0], pc, st)
        if last == "pin" and "Box" in p and args:
            a = H.strip(args[0])
            if H.tag(a) == "closure":
                return self.ev(H.unwrap_async(a), env, pc, st)
        fn = self.F.fn(p)
        if fn is not None and fn.get("hir") is not None:
            vals = []
            for a in args:
                wn = self.writer_name(a, env)
                vals.append(("wref", wn, env) if wn else self.ev(a, env, pc, st))
            return self.inline_helper(fn, vals, pc, st)
        raise Unk(f"call {p}")

    def inline_helper(self, fn, vals, pc, st):
        env = {}
        names = [p[1] for p in fn["params"] if H.tag(p) == "bind"]
        for nm, v in zip(names, vals):
            if isinstance(v, tuple) and v and v[0] == "wref":
                env[nm] = ("walias", v[1], v[2])
            else:
                env[nm] = v
        self.depth += 1
        try:
            try:
                return self.ev(H.unwrap_async(fn["hir"]), env, pc, st)
            except Return as r:
                return r.value
        finally:
            self.depth -= 1

    def add_written(self, target, env, amount, st):
        # target: local in env that is a vecbuf, or a walias to one in an outer env
        v = env.get(target)
        while v is not None and v[0] == "walias":
            target, env = v[1], v[2]
            v = env.get(target)
        if v is None or v[0] != "vecbuf":
            raise Unk("write to an unknown writer")
        cur = v[2][0]
        v[2][0] = ("aff", cur[1] + amount[1], cur[2] + amount[2], "usize")
        return v

    def resolve_writer(self, n, env):
        x = H.strip_refs(n)
        if H.tag(x) == "local" and x[1] in env and env[x[1]][0] in ("vecbuf", "walias"):
            return x[1]
        return None

    def mcall(self, n, env, pc, st):
        mc = H.mcall(n)
        nm, path = mc["name"], mc["path"]
        recv = mc["recv"]
        if nm == "size_without_header":
            return ("aff", 1, 0, "u32")
        if nm in ("server_size", "client_size"):
            tr = path.rsplit("::", 1)[0]
            fn = self.F.fn(path)
            if fn is None:
                raise Unk(f"{path} not found")
            return self.inline(fn, [("self",)], pc, st)
        if nm == "saturating_sub" and len(mc["args"]) == 1:
            x = self.ev(recv, env, pc, st)
            y = self.ev(mc["args"][0], env, pc, st)
            if not (is_aff(x) and is_aff(y) and y[1] == 0):
                raise Unk("saturating_sub operands")
            r = ("aff", x[1], x[2] - y[2], x[3])
            if pc.split_at_value(r, 0):
                return r
            return ("aff", 0, 0, x[3])
        if nm == "saturating_add" and len(mc["args"]) == 1:
            x = self.ev(recv, env, pc, st)
            y = self.ev(mc["args"][0], env, pc, st)
            ty = path.split("<impl ")[1].split(">")[0] if "<impl " in path else x[3]
            if not (is_aff(x) and is_aff(y)) or ty not in INT_TYPES:
                raise Unk("saturating_add operands")
            r = ("aff", x[1] + y[1], x[2] + y[2], ty)
            hi = int_range(ty)[1]
            if pc.split_at_value(r, hi + 1):
                return ("aff", 0, hi, ty)
            return r
        if nm in ("to_be_bytes", "to_le_bytes"):
            x = self.ev(recv, env, pc, st)
            ty = path.split("<impl ")[1].split(">")[0] if "<impl " in path else None
            return ("bytes", x, ty, nm[3:5])
        if nm in ("into", "try_into", "unwrap", "clone"):
            x = self.ev(recv, env, pc, st)
            if nm == "into" and is_aff(x) and len(mc["gargs"]) == 2 and mc["gargs"][1] in INT_TYPES:
                return ("aff", x[1], x[2], mc["gargs"][1])
            return x
        if nm == "len" and not mc["args"]:
            x = self.ev(recv, env, pc, st)
            if x[0] == "vecbuf":
                return x[2][0]
            if x[0] == "srphdr":
                return ("aff", 0, x[2], "usize")
            if x[0] == "walias":
                t, e2 = x[1], x[2]
                return e2[t][2][0]
            raise Unk("len of non-buffer")
        if nm == "write_all" and len(mc["args"]) == 1:
            w = self.resolve_writer(recv, env)
            a = self.ev(mc["args"][0], env, pc, st)
            if w is None:
                # final `w.write_all(&v)` to the transport: v is complete
                return ("unit",)
            if a[0] == "vecbuf" and env.get(w, ("",))[0] in ("vecbuf", "walias"):
                # flushing a staging buffer into another sink (the transport): its length moves over
                self.add_written(w, env, a[2][0], st)
                st.staged = True
                return ("unit",)
            if a[0] == "buf":
                sink = self.add_written(w, env, ("aff", 0, a[1], "usize"), st)
                if st.header_len is not None:
                    raise Unk("a second header array is written")
                before = sink[2][0]
                if (before[1], before[2]) != (0, a[1]):
                    raise Unk("header array written at a non-zero offset of the staging buffer")
                st.header_len = a[1]
                st.header_bytes = a[2]
                st.header_sink = sink
                return ("unit",)
            raise Unk("write_all of a non-array into the staging buffer")
        if nm == "extend_from_slice" and len(mc["args"]) == 1:
            w = self.resolve_writer(recv, env)
            a = self.ev(mc["args"][0], env, pc, st)
            if w is not None and a[0] == "vecbuf":
                self.add_written(w, env, a[2][0], st)
                return ("unit",)
            if w is not None and a[0] == "srphdr":
                # the encrypted header returned by wow_srp is appended to the (empty) staging buffer
                sink = self.add_written(w, env, ("aff", 0, a[2], "usize"), st)
                if st.header_len is not None or (sink[2][0][1], sink[2][0][2]) != (0, a[2]):
                    raise Unk("encrypted header appended at a non-zero offset / second header")
                st.header_len, st.header_bytes, st.sf, st.header_sink = a[2], "srp", a[1], sink
                return ("unit",)
            raise Unk("extend_from_slice operands")
        if nm == "write_into_vec":
            w = self.resolve_writer(mc["args"][0], env) if mc["args"] else None
            if w is None:
                raise Unk("write_into_vec target")
            self.add_written(w, env, ("aff", 1, 0, "usize"), st)
            return ("unit",)
        if nm == "encrypt" and len(mc["args"]) == 1:
            # in-place header encryption with the cipher half: the bytes keep their positions
            r0 = self.ev(recv, env, pc, st)
            a = self.ev(mc["args"][0], env, pc, st)
            if r0 == ("encrypter",) and a[0] == "buf":
                st.enc_calls += 1
                return ("unit",)
            raise Unk("encrypt() on something that is not a header buffer")
        if nm in ("encrypt_server_header", "encrypt_client_header") and len(mc["args"]) == 2 and path.startswith("wow_srp::"):
            size = self.ev(mc["args"][0], env, pc, st)
            if not is_aff(size) or self.ev(recv, env, pc, st) != ("encrypter",):
                raise Unk("encrypt_*_header arguments")
            st.enc_calls += 1
            if "client" in nm:
                hl = 6
            elif self.exp == "wrath":
                hl = 5 if pc.split_at_value(size, 0x8000) else 4  # wow_srp contract: 3-byte size form iff size > 0x7FFF
            else:
                hl = 4
            return ("srphdr", size, hl)
        if nm in ("iter", "enumerate") and not mc["args"]:
            x = self.ev(recv, env, pc, st)
            if x[0] == "srphdr":
                return x
            raise Unk(f"method {nm}")
        if nm in ("write_encrypted_server_header", "write_encrypted_client_header") and len(mc["args"]) == 3:
            w = self.resolve_writer(mc["args"][0], env)
            size = self.ev(mc["args"][1], env, pc, st)
            st.enc_calls += 1
            if not is_aff(size) or w is None:
                raise Unk("encrypted header arguments")
            st.sf = size
            if "client" in nm:
                hl = 6
            elif self.exp == "wrath":
                # wow_srp contract: 3-byte size form iff size > 0x7FFF
                hl = 5 if pc.split_at_value(size, 0x8000) else 4
            else:
                hl = 4
            st.header_len = hl
            st.header_bytes = "srp"
            self.add_written(w, env, ("aff", 0, hl, "usize"), st)
            return ("unit",)
        raise Unk(f"method {nm}")


def finalise(st):
    """fold bytes patched into the staging buffer after the header array was written (`v[0] = s[1]`, or the encrypted header
    copied over a placeholder) into the header description"""
    sink = st.header_sink
    if sink is None or st.header_len is None:
        return
    ov = {k: v for k, v in sink[1].items() if isinstance(k, int)}
    if not ov:
        return
    if all(v[0] == "srpbyte" for v in ov.values()):
        hl = st.srp_hl
        if sorted(ov) != list(range(hl)) or hl != st.header_len:
            st.events.append(("placement", f"the encrypted header of {hl} bytes is copied over a placeholder header of {st.header_len} bytes: "
                              + ("its last byte overwrites the first body byte" if hl > st.header_len else "placeholder bytes stay in the frame")))
        st.header_bytes = "srp"
        return
    if any(v[0] == "srpbyte" for v in ov.values()):
        st.events.append(("placement", "header bytes are partly encrypted, partly plain"))
        return
    if max(ov) >= st.header_len:
        st.events.append(("placement", f"byte {max(ov)} of the staged frame is overwritten after the {st.header_len}-byte header was written: a body byte is lost"))
    if isinstance(st.header_bytes, dict):
        hb = dict(st.header_bytes)
        hb.update({k: v for k, v in ov.items() if k < st.header_len})
        st.header_bytes = hb


def analyse_writer(g, crate, fn, expansion, direction, bmax):
    """-> list of (lo, hi, State|None, error)"""
    out = []
    work = [(0, bmax)]
    while work:
        lo, hi = work.pop()
        pc = Piece(lo, hi)
        st = State()
        ev = WEval(g, crate, expansion, direction)
        env = {"self": ("self",)}
        for p, ty in zip(fn["params"], fn["inputs"]):
            if H.tag(p) == "bind" and p[1] != "self":
                if "Encrypter" in ty:
                    env[p[1]] = ("encrypter",)
                else:
                    # the transport is modelled as a byte sink of its own, so that headers written straight to it are seen
                    env[p[1]] = ("vecbuf", {"transport": True}, [("aff", 0, 0, "usize")])
                    st.transport = env[p[1]]
        try:
            try:
                ev.ev(H.unwrap_async(fn["hir"]), env, pc, st)
            except Return:
                pass
            finalise(st)
            out.append((lo, hi, st, None))
        except Split as s:
            p = s.point
            if not (lo < p <= hi):
                out.append((lo, hi, st, f"internal: bad split point {p}"))
            else:
                work.append((lo, p - 1))
                work.append((p, hi))
        except Abort:
            out.append((lo, hi, st, None))
        except Unk as e:
            out.append((lo, hi, st, f"shape not recognised — review: {e}"))
            break
        if len(out) + len(work) > 800:
            out.append((lo, hi, None, "too many pieces"))
            break
    return sorted(out, key=lambda x: x[0])
