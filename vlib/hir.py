"""Helpers over the typed-HIR JSON trees produced by rsfacts (see tools/rsfacts/src/hirdump.rs)."""


def tag(n):
    return n[0] if isinstance(n, list) and n and isinstance(n[0], str) else None


def strip(n):
    """Drop macro wrappers, single-expression blocks, reference/deref noise."""
    while True:
        t = tag(n)
        if t == "mac":
            n = n[2]
        elif t == "block" and not n[1] and n[2] is not None:
            n = n[2]
        else:
            return n


def strip_refs(n):
    while True:
        n = strip(n)
        t = tag(n)
        if t in ("ref", "refmut"):
            n = n[1]
        elif t == "un" and n[2] == "Deref":
            n = n[4]
        else:
            return n


def mac_name(n):
    return n[1] if tag(n) == "mac" else None


def is_call(n, path=None):
    n = strip(n)
    if tag(n) != "call":
        return False
    f = strip(n[2])
    if tag(f) not in ("path", "selfctor"):
        return False
    return path is None or f[1] == path


def call_path(n):
    n = strip(n)
    if tag(n) != "call":
        return None
    f = strip(n[2])
    if tag(f) in ("path", "selfctor"):
        return f[1]
    return None


def call_gargs(n):
    n = strip(n)
    f = strip(n[2])
    return f[3] if tag(f) == "path" else []


def call_args(n):
    return strip(n)[3]


def call_span(n):
    return strip(n)[1]


def is_mcall(n, path=None):
    n = strip(n)
    return tag(n) == "mcall" and (path is None or n[3] == path)


def mcall(n):
    """-> dict(span,name,path,gargs,recv_ty,recv,args,ty)"""
    n = strip(n)
    return {"span": n[1], "name": n[2], "path": n[3], "gargs": n[4], "recv_ty": n[5], "recv": n[6], "args": n[7], "ty": n[8], "recv_ty_unadj": n[9] if len(n) > 9 else None}


def lit_int(n):
    n = strip(n)
    if tag(n) == "lit" and n[1] == "int":
        return int(n[2])
    if tag(n) == "un" and n[2] == "Neg":
        v = lit_int(n[4])
        return -v if v is not None else None
    return None


def local_name(n):
    n = strip(n)
    return n[1] if tag(n) == "local" else None


def path_of(n):
    n = strip(n)
    return n[1] if tag(n) in ("path", "selfctor") else None


def field_chain(n):
    """self.a.b -> ('self', ['a','b']); returns None if not a pure local/field chain (refs/derefs ignored)."""
    fields = []
    while True:
        n = strip_refs(n)
        t = tag(n)
        if t == "field":
            fields.append(n[2])
            n = n[1]
        elif t == "local":
            return n[1], list(reversed(fields))
        else:
            return None


def stmts_of(block):
    """block -> list of statements + tail as ('tail', expr)."""
    b = block
    while tag(b) == "mac":
        b = b[2]
    if tag(b) != "block":
        return [["tail", b]]
    out = list(b[1])
    if b[2] is not None:
        out.append(["tail", b[2]])
    return out


def walk(n):
    """Pre-order over all nodes. Struct literal / struct pattern field lists are [name, node] pairs, not nodes."""
    if isinstance(n, list):
        t = n[0] if n and isinstance(n[0], str) else None
        if t is not None:
            yield n
        if t == "struct":
            for f in n[2]:
                yield from walk(f[1])
            if n[3] is not None:
                yield from walk(n[3])
            return
        if t == "ps":
            for f in n[2]:
                yield from walk(f[1])
            return
        for c in n:
            if isinstance(c, list):
                yield from walk(c)


def unwrap_async(hir):
    """async fn body = closure(Coroutine...)(block([let a = a;...], real_block)). Returns the real body."""
    if tag(hir) == "closure" and "Coroutine" in hir[1]:
        body = hir[3]
        # async fn: { let <params> = <params>; <real block> };  async block: the block itself
        if ", Fn)" in hir[1] and tag(body) == "block" and body[2] is not None:
            return body[2]
        return body
    return hir


def short(n, depth=0, maxlen=400):
    """Compact Rust-like rendering for messages."""
    s = _short(n)
    return s if len(s) <= maxlen else s[:maxlen] + "…"


def _sp(p):
    # shorten def paths
    return p.split("::")[-1] if p else p


def _short(n):
    t = tag(n)
    if t is None:
        return repr(n)
    if t == "mac":
        return f"{n[1]}!({_short(n[2])})"
    if t == "call":
        return f"{_short(n[2])}({', '.join(_short(a) for a in n[3])})"
    if t == "mcall":
        return f"{_short(n[6])}.{n[2]}({', '.join(_short(a) for a in n[7])})"
    if t == "path":
        parts = n[1].split("::")
        return "::".join(parts[-2:])
    if t == "selfctor":
        return "Self"
    if t == "local":
        return n[1]
    if t == "lit":
        return n[2] if n[1] != "str" else repr(n[2])
    if t == "cast":
        return f"({_short(n[4])} as {n[3]})"
    if t == "ref":
        return "&" + _short(n[1])
    if t == "refmut":
        return "&mut " + _short(n[1])
    if t == "un":
        return {"Deref": "*", "Not": "!", "Neg": "-"}.get(n[2], n[2]) + _short(n[4])
    if t == "bin":
        return f"({_short(n[4])} {n[2]} {_short(n[5])})"
    if t == "asgop":
        return f"{_short(n[4])} {n[2]}= {_short(n[5])}"
    if t == "asg":
        return f"{_short(n[1])} = {_short(n[2])}"
    if t == "field":
        return f"{_short(n[1])}.{n[2]}"
    if t == "idx":
        return f"{_short(n[3])}[{_short(n[4])}]"
    if t == "block":
        inner = "; ".join(_short(s) for s in n[1])
        if n[2] is not None:
            inner += ("; " if inner else "") + _short(n[2])
        return "{ " + inner + " }"
    if t == "let":
        return f"let {_short(n[1])} = {_short(n[2]) if n[2] else ''}"
    if t in ("expr", "semi"):
        return _short(n[1])
    if t == "if":
        return f"if {_short(n[1])} {_short(n[2])}" + (f" else {_short(n[3])}" if n[3] else "")
    if t == "letexpr":
        return f"let {_short(n[1])} = {_short(n[2])}"
    if t == "match":
        return f"match {_short(n[1])} {{ " + ", ".join(f"{_short(a[0])} => {_short(a[2])}" for a in n[3]) + " }"
    if t == "try":
        return _short(n[1]) + "?"
    if t == "await":
        return _short(n[1]) + ".await"
    if t == "for":
        return f"for {_short(n[1])} in {_short(n[2])} {_short(n[3])}"
    if t == "while":
        return f"while {_short(n[1])} {_short(n[2])}"
    if t == "loop":
        return f"loop {_short(n[2])}"
    if t == "ret":
        return "return " + (_short(n[1]) if n[1] else "")
    if t == "break":
        return "break"
    if t == "continue":
        return "continue"
    if t == "struct":
        return f"{_sp(n[1])} {{ " + ", ".join(f"{f[0]}: {_short(f[1])}" for f in n[2]) + " }"
    if t == "array":
        return "[" + ", ".join(_short(x) for x in n[1]) + "]"
    if t == "repeat":
        return f"[{_short(n[2])}; _]:{n[1]}"
    if t == "tup":
        return "(" + ", ".join(_short(x) for x in n[1]) + ")"
    if t == "closure":
        return "|" + ", ".join(_short(p) for p in n[2]) + "| " + _short(n[3])
    if t == "bind":
        return n[1]
    if t == "wild":
        return "_"
    if t == "ts":
        return f"{_sp(n[1])}({', '.join(_short(p) for p in n[2])})"
    if t == "ps":
        return f"{_sp(n[1])} {{ " + ", ".join(f"{f[0]}: {_short(f[1])}" for f in n[2]) + (" .." if n[3] else "") + " }"
    if t == "ppath":
        return "::".join(n[1].split("::")[-2:])
    if t == "pref" or t == "pderef":
        return "&" + _short(n[1])
    if t == "ptup":
        return "(" + ", ".join(_short(p) for p in n[1]) + ")"
    if t == "por":
        return " | ".join(_short(p) for p in n[1])
    if t == "prange":
        return f"{_short(n[1]) if n[1] else ''}..{_short(n[2]) if n[2] else ''}"
    return f"<{t}>"
