"""Symbolic byte counts (C02-D1): the size() formula of a container and the bytes its writer emits are both reduced
to a canonical sum of guarded terms and compared."""
from collections import Counter

from . import hir as H
from .world import gpath, split_gpath

TY_W = {"u8": 1, "i8": 1, "u16": 2, "i16": 2, "u32": 4, "i32": 4, "f32": 4, "u64": 8, "i64": 8, "f64": 8, "bool": 1}


class Unk(Exception):
    pass


class SE:
    """const + atoms + tables (enum switch at a path) + opts (Option at a path is Some)"""

    def __init__(self, const=0):
        self.const = const
        self.atoms = Counter()
        self.tables = {}  # path -> {variant: SE}
        self.opts = {}  # path -> SE
        self.serialised = False

    def add(self, o):
        self.const += o.const
        self.atoms.update(o.atoms)
        for p, t in o.tables.items():
            if p in self.tables:
                mine = self.tables[p]
                for v in set(mine) | set(t):
                    a = mine.get(v) or SE()
                    a.add(t.get(v) or SE())
                    mine[v] = a
            else:
                self.tables[p] = t
        for p, s in o.opts.items():
            if p in self.opts:
                self.opts[p].add(s)
            else:
                self.opts[p] = s
        self.serialised = self.serialised or o.serialised
        return self

    def scale(self, k):
        if self.tables or self.opts:
            raise Unk("scaling a conditional size")
        r = SE(self.const * k)
        for a, n in self.atoms.items():
            if a[0] == "len":
                r.atoms[("len", a[1], a[2] * k)] += n
            else:
                r.atoms[a] += n * k
        return r

    def is_const(self):
        return not self.atoms and not self.tables and not self.opts and not self.serialised

    def normalise(self):
        # merge len atoms on the same path
        lens = {}
        others = Counter()
        for a, n in self.atoms.items():
            if a[0] == "len":
                lens[a[1]] = lens.get(a[1], 0) + a[2] * n
            else:
                others[a] += n
        self.atoms = others
        for p, k in lens.items():
            if k:
                self.atoms[("len", p, k)] = 1
        for p, t in list(self.tables.items()):
            for v in t:
                t[v].normalise()
            # pull out what is common to all arms
            arms = list(t.values())
            if arms:
                cmin = min(a.const for a in arms)
                common = None
                for a in arms:
                    common = Counter(a.atoms) if common is None else (common & a.atoms)
                for a in arms:
                    a.const -= cmin
                    a.atoms = a.atoms - common
                self.const += cmin
                self.atoms.update(common)
            if all(a.const == 0 and not a.atoms and not a.tables and not a.opts for a in arms):
                del self.tables[p]
        for p, s in list(self.opts.items()):
            s.normalise()
            if s.const == 0 and not s.atoms and not s.tables and not s.opts:
                del self.opts[p]
        return self

    def freeze(self):
        return (
            self.const,
            tuple(sorted((repr(a), n) for a, n in self.atoms.items() if n)),
            tuple(sorted((p, tuple(sorted((v, s.freeze()) for v, s in t.items()))) for p, t in self.tables.items())),
            tuple(sorted((p, s.freeze()) for p, s in self.opts.items())),
            self.serialised,
        )

    def show(self):
        parts = []
        if self.const:
            parts.append(str(self.const))
        for a, n in sorted(self.atoms.items(), key=lambda x: repr(x[0])):
            parts.append((f"{n}*" if n != 1 else "") + show_atom(a))
        for p, t in sorted(self.tables.items()):
            parts.append("match " + ".".join(p) + " {" + ", ".join(f"{v}: {s.show()}" for v, s in sorted(t.items()) if s.freeze() != SE().freeze()) + "}")
        for p, s in sorted(self.opts.items()):
            parts.append("[" + ".".join(p) + " is Some: " + s.show() + "]")
        if self.serialised:
            parts.append("<serialise-and-count>")
        return " + ".join(parts) if parts else "0"


def se_diff(a, b, pre=""):
    """the components in which two normalised size expressions differ: [(component, shown in a, shown in b)]"""
    out = []
    if a.const != b.const:
        out.append((pre + "const", str(a.const), str(b.const)))
    for k in sorted(set(a.atoms) | set(b.atoms), key=repr):
        if a.atoms.get(k, 0) != b.atoms.get(k, 0):
            out.append((pre + "atom " + show_atom(k), str(a.atoms.get(k, 0)), str(b.atoms.get(k, 0))))
    for p in sorted(set(a.tables) | set(b.tables)):
        ta, tb = a.tables.get(p, {}), b.tables.get(p, {})
        for v in sorted(set(ta) | set(tb)):
            out += se_diff(ta.get(v) or SE(), tb.get(v) or SE(), pre + "match " + ".".join(p) + "::" + str(v) + " / ")
    for p in sorted(set(a.opts) | set(b.opts)):
        out += se_diff(a.opts.get(p) or SE(), b.opts.get(p) or SE(), pre + "[" + ".".join(p) + " is Some] / ")
    if a.serialised != b.serialised:
        out.append((pre + "serialised", str(a.serialised), str(b.serialised)))
    return out


def show_atom(a):
    if a[0] == "len":
        return f"{a[2]}*len({'.'.join(a[1])})"
    if a[0] == "sum":
        return f"sum({'.'.join(a[1])}: {a[3]})"
    return f"{a[0]}({', '.join('.'.join(x) if isinstance(x, tuple) else str(x) for x in a[1:])})"


def const(k):
    return SE(k)


def atom(a):
    s = SE()
    s.atoms[a] = 1
    return s


# ----------------------------------------------------------------------------------------------
# size() evaluation
# ----------------------------------------------------------------------------------------------
class SizeEval:
    def __init__(self, g, crate, atom_types, builtin_names):
        self.g, self.crate = g, crate
        self.atom_types = atom_types  # global type paths whose .size() stays an atom (paired wowm structs)
        self.builtin_names = builtin_names
        self.depth = 0

    def path_of(self, n, env):
        n = H.strip_refs(n)
        t = H.tag(n)
        if t == "local":
            v = env.get(n[1])
            if isinstance(v, tuple):
                return v
            return None
        if t == "field":
            b = self.path_of(n[1], env)
            return b + (n[2],) if b is not None else None
        if t == "mcall" and H.mcall(n)["name"] in ("as_slice", "iter", "as_ref") and not H.mcall(n)["args"]:
            return self.path_of(H.mcall(n)["recv"], env)
        return None

    def ev(self, n, env):
        n = H.strip(n)
        t = H.tag(n)
        if t == "lit" and n[1] == "int":
            return const(int(n[2]))
        if t == "cast":
            return self.ev(n[4], env)
        if t in ("ref", "refmut"):
            return self.ev(n[1], env)
        if t == "bin":
            op = n[2]
            if op == "Add":
                return self.ev(n[4], env).add(self.ev(n[5], env))
            if op == "Mul":
                a, b = self.ev(n[4], env), self.ev(n[5], env)
                if a.is_const():
                    return b.scale(a.const)
                if b.is_const():
                    return a.scale(b.const)
                raise Unk("product of two non-constants")
            raise Unk(f"operator {op}")
        if t == "block":
            env2 = dict(env)
            sts = n[1]
            # serialise-and-count form
            txt = H.short(n, maxlen=400)
            if any(H.is_mcall(x) and H.mcall(x)["name"] == "write_into_vec" for x in H.walk(n)) and n[2] is not None \
                    and H.is_mcall(n[2]) and H.mcall(H.strip(n[2]))["name"] == "len":
                s = SE()
                s.serialised = True
                return s
            for st in sts:
                if st[0] == "let" and H.tag(st[1]) == "bind" and st[2] is not None:
                    p = self.path_of(st[2], env2)
                    if p is not None:
                        env2[st[1][1]] = p
                    else:
                        env2[st[1][1]] = ("#se", self.ev(st[2], env2))
                elif st[0] == "item":
                    continue
                else:
                    raise Unk(f"statement in size(): {H.short(st[1] if len(st) > 1 else st)}")
            if n[2] is None:
                raise Unk("size() block without value")
            return self.ev(n[2], env2)
        if t == "local":
            v = env.get(n[1])
            if isinstance(v, tuple) and v and v[0] == "#se":
                return v[1]
            raise Unk(f"local {n[1]} used as a number")
        if t == "call":
            p = H.call_path(n) or ""
            args = H.call_args(n)
            last = p.split("::")[-1]
            if p.startswith("std::mem::size_of") :
                ga = H.call_gargs(n)
                if ga and ga[0] in TY_W:
                    return const(TY_W[ga[0]])
                raise Unk(f"size_of::<{ga}>")
            if last == "packed_guid_size" and len(args) == 1:
                pa = self.path_of(args[0], env)
                if pa is None:
                    raise Unk("packed_guid_size of non-path")
                return atom(("pgs", pa))
            if last == "zlib_compressed_size" and len(args) == 1:
                paths = [self.path_of(x, env) for x in H.walk(args[0])]
                pa = next((q for q in paths if q), None) or self.path_of(args[0], env)
                return atom(("zlib", pa))
            if last.endswith("_size") and len(args) == 1:
                pa = self.path_of(args[0], env)
                if pa is None:
                    raise Unk(f"{last} of non-path")
                return atom(("fn", last, pa))
            raise Unk(f"call {p}")
        if t == "mcall":
            mc = H.mcall(n)
            nm = mc["name"]
            if nm == "len" and not mc["args"]:
                pa = self.path_of(mc["recv"], env)
                if pa is None:
                    raise Unk("len of non-path")
                import re as _re
                m = _re.search(r"; (\d+)\]$", (mc.get("recv_ty_unadj") or "").replace("&", ""))
                if m:
                    return const(int(m.group(1)))  # len() of a fixed-size array is its type-level length
                return atom(("len", pa, 1))
            if nm in ("size", "size_uncompressed") and not mc["args"]:
                pa = self.path_of(mc["recv"], env)
                if pa is None:
                    raise Unk("size of non-path")
                rty = gpath(self.crate, mc["recv_ty"].replace("&mut ", "").lstrip("&"))
                return self.size_of_type(rty, pa, mc["path"])
            if nm == "fold" and len(mc["args"]) == 2:
                pa = self.path_of(mc["recv"], env)
                init = self.ev(mc["args"][0], env)
                clo = H.strip(mc["args"][1])
                if pa is None or H.tag(clo) != "closure" or len(clo[2]) != 2:
                    raise Unk("fold shape")
                acc, x = clo[2]
                if not init.is_const() or init.const != 0:
                    raise Unk("fold does not start at 0")
                body = H.strip(clo[3])
                if not (H.tag(body) == "bin" and body[2] == "Add"):
                    raise Unk("fold body is not acc + f(x)")
                # flatten a left-assoc chain acc + a + b
                terms = []

                def flat(e):
                    e = H.strip(e)
                    if H.tag(e) == "bin" and e[2] == "Add":
                        flat(e[4])
                        flat(e[5])
                    else:
                        terms.append(e)

                flat(body)
                accn = acc[1] if H.tag(acc) == "bind" else None
                if H.local_name(terms[0]) != accn:
                    raise Unk("fold body does not start with the accumulator")
                env2 = dict(env)
                if H.tag(x) == "bind":
                    env2[x[1]] = pa + ("[]",)
                es = SE()
                for tm in terms[1:]:
                    es.add(self.ev(tm, env2))
                es.normalise()
                if es.is_const():
                    return atom(("len", pa, es.const))
                return atom(("sum", pa, es.freeze(), es.show()))
            if nm == "sum" and not mc["args"]:
                # v.iter().map(|x| f(x)).sum::<usize>(): the same sum as fold(0, |acc, x| acc + f(x))
                inner = H.strip(mc["recv"])
                if H.is_mcall(inner) and H.mcall(inner)["name"] == "map" and len(H.mcall(inner)["args"]) == 1:
                    im = H.mcall(inner)
                    pa = self.path_of(im["recv"], env)
                    clo = H.strip(im["args"][0])
                    if pa is not None and H.tag(clo) == "closure" and len(clo[2]) == 1:
                        env2 = dict(env)
                        x = clo[2][0]
                        while H.tag(x) in ("pref", "pderef"):
                            x = x[1]
                        if H.tag(x) == "bind":
                            env2[x[1]] = pa + ("[]",)
                        es = SE()
                        es.add(self.ev(clo[3], env2))
                        es.normalise()
                        if es.is_const():
                            return atom(("len", pa, es.const))
                        return atom(("sum", pa, es.freeze(), es.show()))
                raise Unk("sum shape")
            raise Unk(f"method {nm}")
        if t == "match":
            sp = self.path_of(n[1], env)
            if sp is None:
                raise Unk("match on non-path")
            sty = gpath(self.crate, n[2].replace("&mut ", "").replace("&", ""))
            c, lp = split_gpath(sty)
            adt = self.g.f(c).adt(lp) if c else None
            if adt is None or adt["kind"] != "Enum":
                raise Unk(f"match on non-enum {sty}")
            variants = [v[0] for v in adt["variants"]]
            table = {}
            wild = None
            for pat, guard, body in n[3]:
                while H.tag(pat) in ("pref", "pderef"):
                    pat = pat[1]
                env2 = dict(env)
                if H.tag(pat) == "ps":
                    for fname, fp in pat[2]:
                        if H.tag(fp) == "bind":
                            env2[fp[1]] = sp + (fname,)
                    table[pat[1].split("::")[-1]] = self.ev(body, env2)
                elif H.tag(pat) in ("ppath", "ts"):
                    table[pat[1].split("::")[-1]] = self.ev(body, env2)
                elif H.tag(pat) in ("wild", "bind"):
                    wild = body
                else:
                    raise Unk("match pattern")
            for v in variants:
                if v not in table:
                    if wild is None:
                        raise Unk(f"no arm for {v}")
                    table[v] = self.ev(wild, env)
            s = SE()
            s.tables[sp] = table
            return s
        if t == "if":
            c = H.strip(n[1])
            if H.tag(c) == "letexpr" and H.tag(c[1]) == "ts" and c[1][1].endswith("::Some"):
                pa = self.path_of(c[2], env)
                if pa is None:
                    raise Unk("if-let on non-path")
                env2 = dict(env)
                b = c[1][2][0] if c[1][2] else None
                if b is not None and H.tag(b) == "bind":
                    env2[b[1]] = pa
                then = self.ev(n[2], env2)
                els = self.ev(n[3], env) if n[3] is not None else SE()
                if not els.is_const() or els.const != 0:
                    raise Unk("else branch of optional is not 0")
                s = SE()
                s.opts[pa] = then
                return s
            raise Unk("if condition")
        raise Unk(f"expression {H.short(n, maxlen=80)}")

    def size_of_type(self, rty, pa, mpath):
        last = rty.split("<")[0].split("::")[-1]
        if rty in self.atom_types or last in self.builtin_names:
            return atom(("size", pa))
        # synthesised type: inline its size()
        c, lp = split_gpath(rty)
        fn = self.g.f(c).fn(lp + "::size") if c else None
        if fn is None:
            return atom(("size", pa))
        if self.depth > 6:
            raise Unk("size() recursion")
        self.depth += 1
        try:
            old = self.crate
            self.crate = c
            r = self.ev(fn["hir"], {"self": pa})
            self.crate = old
            return r
        finally:
            self.depth -= 1


# ----------------------------------------------------------------------------------------------
# bytes written, from raw write Items (vlib/wlayout.py)
# ----------------------------------------------------------------------------------------------
WRITE_FN_SIZES = {
    "write_packed_guid": lambda p: atom(("pgs", p)),
    "write_monster_move_spline": lambda p: atom(("fn", "monster_move_spline_size", p)),
    # hand-written list writers: bytes = per-element * len + constant; the numbers are *measured* by interpreting the
    # writers (props/c01_leaf.measure_list_writers, rule leaf.writer-size of C02), this table only has to agree with them
    "write_achievement_done": lambda p: atom(("len", p, LIST_WRITERS["write_achievement_done"][0])).add(SE(LIST_WRITERS["write_achievement_done"][1])),
    "write_addon_array": lambda p: atom(("len", p, LIST_WRITERS["write_addon_array"][0])).add(SE(LIST_WRITERS["write_addon_array"][1])),
}
LIST_WRITERS = {"write_achievement_done": (8, 4), "write_addon_array": (8, 0), "write_achievement_in_progress": ("sum", 4)}


class WriteSize:
    def __init__(self, g, atom_types, builtin_names, struct_const):
        self.g = g
        self.atom_types, self.builtin_names = atom_types, builtin_names
        self.struct_const = struct_const  # callable: type path -> const size or None

    def path(self, src):
        if not src or src.get("kind") != "path":
            return None
        return src["path"]

    def seq(self, items):
        s = SE()
        for i, it in enumerate(items):
            k = it["k"]
            if k in ("int", "float"):
                s.const += it["w"]
            elif k == "constbytes":
                s.const += len(it["bytes"])
            elif k == "strbytes":
                p = self.path(it["src"])
                if p is None:
                    raise Unk("string bytes of non-path")
                s.add(atom(("len", p, 1)))
            elif k == "rawbytes":
                raise Unk("raw bytes")
            elif k == "call":
                fname = it["fn"].split("::")[-1]
                p = self.path(it.get("src"))
                if p is None:
                    raise Unk(f"writer call {fname} on non-path")
                if fname in WRITE_FN_SIZES:
                    s.add(WRITE_FN_SIZES[fname](p))
                    continue
                if fname == "write_achievement_in_progress":
                    es = atom(("size", p + ("[]",)))
                    s.add(atom(("sum", p, es.freeze(), es.show())))
                    s.const += LIST_WRITERS[fname][1]
                    continue
                ty = (it.get("recv_ty") or "").replace("&", "")
                k2 = self.struct_const(ty)
                if k2 is not None:
                    s.const += k2
                else:
                    s.add(atom(("size", p)))
            elif k == "array":
                p = it["path"]
                es = self.seq(it["elem"]).normalise()
                if es.is_const():
                    if it.get("fixed") is not None:
                        s.const += es.const * it["fixed"]
                    else:
                        s.add(atom(("len", p, es.const)))
                else:
                    if it.get("fixed") is not None and False:
                        pass
                    s.add(atom(("sum", p, es.freeze(), es.show())))
            elif k == "switch":
                p = it["path"]
                c, lp = split_gpath(it["scrut_ty"])
                adt = self.g.f(c).adt(lp) if c else None
                if adt is None or adt["kind"] != "Enum":
                    raise Unk("switch on non-enum")
                table = {}
                wild = None
                for key, sub in it["arms"]:
                    if key == "_":
                        wild = sub
                    elif key:
                        table[key.split("::")[-1]] = self.seq(sub)
                for v in [x[0] for x in adt["variants"]]:
                    if v not in table:
                        table[v] = self.seq(wild) if wild is not None else SE()
                t = SE()
                t.tables[p] = table
                s.add(t)
            elif k == "iflet":
                if it["else"]:
                    raise Unk("optional else writes")
                o = SE()
                o.opts[it["path"]] = self.seq(it["then"])
                s.add(o)
            elif k == "zlib-start":
                rest = items[i + 1:]
                paths = [x.get("path") for x in rest if x.get("k") == "array"]
                s.add(atom(("zlib", paths[0] if paths else None)))
                return s
            else:
                raise Unk(f"write item {k}")
        return s
