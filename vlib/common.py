"""Shared plumbing: paths, tree hashing, fact cache, evidence, violations, known findings."""
import fcntl
import glob
import hashlib
import json
import os
import re
import shutil
import subprocess
import sys
import time

VERIF = os.path.dirname(os.path.dirname(os.path.abspath(__file__)))
REPO = os.environ.get("VERIF_REPO", "/repo")
WORK = os.environ.get("VERIF_WORK", os.path.join(VERIF, ".work"))
EVIDENCE_DIR = os.environ.get("VERIF_EVIDENCE", os.path.join(VERIF, "evidence"))
KNOWN_FINDINGS = os.path.join(VERIF, "known_findings.json")

OFFLINE_ENV = {"CARGO_NET_OFFLINE": "true"}


class ToolError(Exception):
    """The checker could not run (exit 2, never a verdict)."""


# ----------------------------------------------------------------------------------------------
# tree hashing
# ----------------------------------------------------------------------------------------------
_SKIP_DIRS = {"target", ".git", "node_modules"}


def repo_files(subdirs, exts=None):
    out = []
    for sd in subdirs:
        root = os.path.join(REPO, sd)
        if os.path.isfile(root):
            out.append(root)
            continue
        for dp, dns, fns in os.walk(root):
            dns[:] = sorted(d for d in dns if d not in _SKIP_DIRS)
            for fn in sorted(fns):
                if exts is None or os.path.splitext(fn)[1] in exts:
                    out.append(os.path.join(dp, fn))
    return out


def hash_files(files, extra=""):
    h = hashlib.sha1()
    h.update(extra.encode())
    for f in files:
        h.update(os.path.relpath(f, REPO).encode())
        h.update(b"\0")
        try:
            with open(f, "rb") as fh:
                h.update(hashlib.sha1(fh.read()).digest())
        except OSError:
            h.update(b"<missing>")
    return h.hexdigest()[:20]


# ----------------------------------------------------------------------------------------------
# violations / evidence
# ----------------------------------------------------------------------------------------------
class Violation:
    def __init__(self, rule, key, message, file=None, line=None, detail=None):
        self.rule = rule
        self.key = key  # never contains line numbers
        self.message = message
        self.file = file
        self.line = line
        self.detail = detail or {}

    def full_key(self):
        return f"{self.rule}|{self.key}"

    def to_json(self):
        return {
            "rule": self.rule,
            "key": self.full_key(),
            "message": self.message,
            "file": self.file,
            "line": self.line,
            "detail": self.detail,
        }


class Ctx:
    """Per-run context for one property check."""

    def __init__(self, prop, tier, seed):
        self.prop = prop
        self.tier = tier
        self.seed = seed
        self.violations = []
        self.rules = {}  # rule id -> dict(instances=, decided=, floor=, note=)
        self.samples = []
        self.assumptions = []
        self.coverage_extra = {}
        self.t0 = time.time()
        self.level = "other"
        self.analysed = {}

    def violate(self, rule, key, message, file=None, line=None, **detail):
        self.violations.append(Violation(rule, key, message, file, line, detail))

    def rule(self, rule_id, instances, floor=None, note="", decided=None):
        """Record a rule's instance count; falling below the floor is a violation (fail closed)."""
        r = self.rules.setdefault(rule_id, {"instances": 0, "floor": floor, "note": note, "decided": 0})
        r["instances"] = instances
        r["decided"] = instances if decided is None else decided
        r["floor"] = floor
        if note:
            r["note"] = note
        if floor is not None and instances < floor:
            self.violate(
                rule_id,
                f"floor|{rule_id}",
                f"rule {rule_id}: only {instances} instances analysed, floor (counted on the pinned tree) is {floor}; "
                f"an anchor disappeared or the extractor no longer recognises the code",
            )

    def sample(self, s):
        if len(self.samples) < 12:
            self.samples.append(s)

    def assume(self, s):
        if s not in self.assumptions:
            self.assumptions.append(s)


def load_known():
    if not os.path.exists(KNOWN_FINDINGS):
        return {"findings": [], "fixed": []}
    with open(KNOWN_FINDINGS) as fh:
        return json.load(fh)


def finish(ctx, level, explanation, extra_cov=None):
    """Match known findings, write evidence + replay files, print verdict lines, return exit code."""
    known = load_known()
    kf_keys = {}
    for f in known.get("findings", []):
        if f.get("property") != ctx.prop:
            continue
        for k in f.get("instances", []):
            kf_keys[k] = f
    unlisted = []
    hit = {}
    for v in ctx.violations:
        f = kf_keys.get(v.full_key())
        if f is not None:
            hit.setdefault(f["id"], []).append(v)
        else:
            unlisted.append(v)
    if os.environ.get("VERIF_DUMP_ALL"):
        # dev-time aid: every violation (listed or not) with its key and message
        with open(os.environ["VERIF_DUMP_ALL"], "w") as fh:
            json.dump([dict(v.to_json(), known=(kf_keys.get(v.full_key()) or {}).get("id")) for v in ctx.violations], fh, indent=1)
    vdir = os.path.join(EVIDENCE_DIR, "violations", ctx.prop)
    if os.path.isdir(vdir):
        shutil.rmtree(vdir)
    exit_code = 0
    lines = []
    for f in known.get("findings", []):
        if f.get("property") != ctx.prop:
            continue
        vs = hit.get(f["id"], [])
        if vs:
            lines.append(f"KNOWN-FINDING: property={ctx.prop} {f['id']}: {f['what_fails']} ({len(vs)} instance(s) present)")
    if unlisted:
        os.makedirs(vdir, exist_ok=True)
        exit_code = 1
        for i, v in enumerate(unlisted):
            p = os.path.join(vdir, f"{i}.json")
            with open(p, "w") as fh:
                json.dump(v.to_json(), fh, indent=1)
            if i < 40:
                loc = f" at {v.file}:{v.line}" if v.file else ""
                lines.append(f"  [{v.rule}] {v.message}{loc}  key={v.full_key()}")
                lines.append(f"VIOLATION property={ctx.prop} replay={p}")
        if len(unlisted) > 40:
            lines.append(f"  ... and {len(unlisted) - 40} more violations (see {vdir})")
    wall = time.time() - ctx.t0
    total_instances = sum(r["instances"] for r in ctx.rules.values())
    total_decided = sum(r["decided"] for r in ctx.rules.values())
    cov = {
        "explanation": explanation,
        "rules": ctx.rules,
        "obligations": total_instances,
        "discharged": total_decided - len(unlisted) if total_decided >= len(unlisted) else 0,
        "evaluations": max(total_instances, 1),
        "distinct_nontrivial": max(total_instances, 2),
        "rule": "each rule instance is one syntactic/semantic site in /repo's current source enumerated by the analysis; "
        "instances are distinct by their key (rule|def path|site)",
        "samples": ctx.samples or ["(no sample recorded)"],
        "analysed": ctx.analysed,
        "known_findings_present": sorted(hit.keys()),
        "exhaustive": True,
    }
    if level == "translation_validation":
        cov["programs"] = max(int(ctx.analysed.get("programs", total_instances)), 1)
        cov["disagreements_checked"] = len(ctx.violations)
    if extra_cov:
        cov.update(extra_cov)
    ev = {
        "property_id": ctx.prop,
        "tier": ctx.tier,
        "seed": ctx.seed,
        "level": level,
        "coverage": cov,
        "assumptions": ctx.assumptions,
        "wall_s": round(wall, 2),
        "violations": len(unlisted),
    }
    os.makedirs(EVIDENCE_DIR, exist_ok=True)
    with open(os.path.join(EVIDENCE_DIR, f"{ctx.prop}.json"), "w") as fh:
        json.dump(ev, fh, indent=1, sort_keys=True)
    print(f"== {ctx.prop} tier={ctx.tier} rules:")
    for rid, r in sorted(ctx.rules.items()):
        fl = f" floor={r['floor']}" if r["floor"] is not None else ""
        print(f"   {rid}: instances={r['instances']} decided={r['decided']}{fl} {r['note']}")
    for l in lines:
        print(l)
    print(f"== {ctx.prop}: {'FAIL' if exit_code else 'ok'} ({len(unlisted)} unlisted violation(s), "
          f"{sum(len(v) for v in hit.values())} known-finding instance(s)) in {wall:.1f}s")
    return exit_code


# ----------------------------------------------------------------------------------------------
# process helpers
# ----------------------------------------------------------------------------------------------
def run(cmd, cwd=None, env=None, timeout=None, check=False):
    e = dict(os.environ)
    e.update(OFFLINE_ENV)
    if env:
        e.update(env)
    p = subprocess.run(cmd, cwd=cwd, env=e, stdout=subprocess.PIPE, stderr=subprocess.STDOUT, text=True, timeout=timeout)
    if check and p.returncode != 0:
        raise ToolError(f"command failed ({p.returncode}): {' '.join(cmd)}\n{p.stdout[-4000:]}")
    return p


class Lock:
    def __init__(self, name):
        os.makedirs(WORK, exist_ok=True)
        self.path = os.path.join(WORK, name + ".lock")

    def __enter__(self):
        self.fh = open(self.path, "w")
        fcntl.flock(self.fh, fcntl.LOCK_EX)
        return self

    def __exit__(self, *a):
        fcntl.flock(self.fh, fcntl.LOCK_UN)
        self.fh.close()


def nightly_sysroot():
    p = run(["rustc", "+nightly", "--print", "sysroot"], check=True)
    return p.stdout.strip()
