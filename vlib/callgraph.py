"""Resolved call graph from the MIR facts of one crate (local functions only) + SCC / reachability helpers."""
import sys

from .facts import facts


class CallGraph:
    def __init__(self, crate, config="union"):
        self.F = facts(crate, config)
        self.edges = {}
        self.sites = {}
        local = set(self.F.paths("mir"))
        self.local = local
        for m in self.F.all("mir"):
            src = m["path"]
            outs = self.edges.setdefault(src, set())
            for (span, callee, resolved, ga, mac) in m["calls"]:
                tgt = resolved if resolved != "-" else callee
                if tgt in local:
                    outs.add(tgt)
                    self.sites.setdefault((src, tgt), span)
                elif callee in local:
                    outs.add(callee)
                    self.sites.setdefault((src, callee), span)
        # closures / coroutine bodies belong to their parent
        for p in local:
            if "::{closure#" in p:
                parent = p.split("::{closure#")[0]
                if parent in local:
                    self.edges.setdefault(parent, set()).add(p)

    def sccs(self):
        """iterative Tarjan; returns list of SCCs with a cycle"""
        index = {}
        low = {}
        on = set()
        stack = []
        out = []
        counter = [0]
        for root in self.edges:
            if root in index:
                continue
            work = [(root, iter(self.edges.get(root, ())))]
            index[root] = low[root] = counter[0]
            counter[0] += 1
            stack.append(root)
            on.add(root)
            while work:
                v, it = work[-1]
                advanced = False
                for w in it:
                    if w not in index:
                        index[w] = low[w] = counter[0]
                        counter[0] += 1
                        stack.append(w)
                        on.add(w)
                        work.append((w, iter(self.edges.get(w, ()))))
                        advanced = True
                        break
                    elif w in on:
                        low[v] = min(low[v], index[w])
                if advanced:
                    continue
                work.pop()
                if work:
                    u = work[-1][0]
                    low[u] = min(low[u], low[v])
                if low[v] == index[v]:
                    comp = []
                    while True:
                        w = stack.pop()
                        on.discard(w)
                        comp.append(w)
                        if w == v:
                            break
                    if len(comp) > 1 or v in self.edges.get(v, ()):
                        out.append(comp)
        return out

    def reachable(self, roots):
        seen = set()
        todo = [r for r in roots if r in self.edges or r in self.local]
        parent = {}
        while todo:
            v = todo.pop()
            if v in seen:
                continue
            seen.add(v)
            for w in self.edges.get(v, ()):
                if w not in seen:
                    parent.setdefault(w, v)
                    todo.append(w)
        return seen, parent
