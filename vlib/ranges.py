"""Interval analysis over typed HIR expressions, evaluated at a given site inside a function body (C03 discharge).

`Walker` traverses a body in evaluation order keeping a scoped environment whose bindings carry walk sequence numbers
(let-bindings, for-range variables, tuple destructuring of if-expressions, allocation guards); every node is reported
with the environment and the sequence number at which it occurs, so operand ranges are computed with exactly the
facts that precede the site."""
import re

from . import hir as H
from .intconv import INT_TYPES, int_range

LEN_MAX = 1 << 47  # in-memory-size axiom: any live Vec/String/slice length (user address space on x86-64)
SIZE_MAX = 1 << 56  # wire size of a live object: a bounded multiple of its in-memory size
HEADER_SIZE_MAX = 0xFFFFFF  # a world header's size field has at most 3 bytes


def ty_range(ty):
    if ty in INT_TYPES:
        return int_range(ty)
    if ty == "bool":
        return (0, 1)
    return None


def result_ok(ty):
    """Result<T, E> / Future<Output=Result<T,E>> -> T"""
    if not ty:
        return None
    i = ty.find("std::result::Result<")
    if i < 0:
        return None
    inner = ty[i + len("std::result::Result<"):]
    depth = 0
    for j, ch in enumerate(inner):
        if ch == "<":
            depth += 1
        elif ch == ">":
            if depth == 0:
                return inner[:j]
            depth -= 1
        elif ch == "," and depth == 0:
            return inner[:j]
    return None


def union(a, b):
    if a is None or b is None:
        return None
    return (min(a[0], b[0]), max(a[1], b[1]))


class Env:
    def __init__(self, parent=None):
        self.vars = {}
        self.parent = parent

    def set(self, k, v, seq):
        self.vars.setdefault(k, []).append((seq, v))

    def get(self, k, at=None):
        e = self
        while e is not None:
            lst = e.vars.get(k)
            if lst:
                for seq, v in reversed(lst):
                    if at is None or seq <= at:
                        return v
            e = e.parent
        return None

    def child(self):
        return Env(self)


class Ranger:
    def __init__(self, mutated, consts=None, param_range=None):
        self.mutated = mutated  # names assigned after initialisation
        self.consts = consts or (lambda p: None)
        self.param_range = param_range or (lambda name: None)
        self.depth = 0

    def rng(self, n, env, at=None):
        self.depth += 1
        try:
            if self.depth > 60:
                return None
            return self._rng(n, env, at)
        finally:
            self.depth -= 1

    def binding_range(self, name, b):
        if b[0] == "range":
            return (b[1], b[2])
        if b[0] == "expr":
            if name in self.mutated:
                return ty_range(b[3]) if b[3] else None
            r = self.rng(b[1], b[2], b[4])
            tr = ty_range(b[3]) if b[3] else None
            if r is None:
                return tr
            if tr is not None and not (tr[0] <= r[0] and r[1] <= tr[1]):
                return tr
            return r
        if b[0] == "param":
            r = self.param_range(name)
            return r if r is not None else ty_range(b[1])
        if b[0] == "type":
            return ty_range(b[1])
        return None

    def _rng(self, n, env, at):
        n = H.strip(n)
        t = H.tag(n)
        if t in ("try", "await"):
            return self.rng(n[1], env, at)
        if t == "lit":
            if n[1] == "int":
                v = int(n[2])
                return (v, v)
            return None
        if t == "local":
            b = env.get(n[1], at)
            return self.binding_range(n[1], b) if b is not None else None
        if t == "path":
            c = self.consts(n[1])
            return (c, c) if c is not None else None
        if t in ("ref", "refmut"):
            return self.rng(n[1], env, at)
        if t == "un":
            return self.rng(n[4], env, at) if n[2] == "Deref" else None
        if t == "cast":
            r = self.rng(n[4], env, at)
            tr = ty_range(n[3])
            if r is None:
                r = ty_range(n[2])
            if tr is None:
                return r
            if r is not None and tr[0] <= r[0] and r[1] <= tr[1]:
                return r
            return tr
        if t == "call":
            p = H.call_path(n) or ""
            args = H.call_args(n)
            last = p.split("::")[-1]
            if p == "std::convert::From::from" and len(args) == 1:
                ga = H.call_gargs(n)
                r = self.rng(args[0], env, at)
                return r if r is not None else (ty_range(ga[0]) if ga else None)
            if last in ("from_be_bytes", "from_le_bytes") and len(args) == 1:
                ty = p.split("<impl ")[1].split(">")[0] if "<impl " in p else None
                tr = ty_range(ty)
                a = H.strip(args[0])
                if H.tag(a) == "array" and tr and last == "from_be_bytes":
                    hi = 0
                    for e in a[1]:
                        er = self.rng(e, env, at) or (0, 255)
                        hi = (hi << 8) | min(max(er[1], 0), 255)
                    return (0, hi)
                return tr
            if last == "size_of":
                ga = H.call_gargs(n)
                w = {"u8": 1, "u16": 2, "u32": 4, "u64": 8, "f32": 4, "i32": 4}.get(ga[0] if ga else "")
                return (w, w) if w else None
            ok = result_ok(n[4]) if len(n) > 4 else None
            if ok:
                return ty_range(ok)
            return ty_range(n[4]) if len(n) > 4 and n[4] else None
        if t == "mcall":
            mc = H.mcall(n)
            nm = mc["name"]
            if nm == "len" and not mc["args"]:
                m = re.search(r"; (\d+)\]$", (mc.get("recv_ty_unadj") or "").replace("&mut ", "").replace("&", ""))
                if m:
                    return (int(m.group(1)), int(m.group(1)))
                return (0, LEN_MAX)
            if nm in ("size", "size_uncompressed") and not mc["args"]:
                return (0, SIZE_MAX)
            if nm in ("into", "try_into", "unwrap", "clone") and not mc["args"]:
                r = self.rng(mc["recv"], env, at)
                if r is not None:
                    return r
                return ty_range(mc["gargs"][1]) if nm == "into" and len(mc["gargs"]) == 2 else None
            if nm == "saturating_sub" and len(mc["args"]) == 1:
                a, b = self.rng(mc["recv"], env, at), self.rng(mc["args"][0], env, at)
                if a and b:
                    return (max(0, a[0] - b[1]), max(0, a[1] - b[0]))
                return a
            if nm in ("count_ones", "leading_zeros", "trailing_zeros"):
                return (0, 128)
            if nm == "min" and len(mc["args"]) == 1:
                a, b = self.rng(mc["recv"], env, at), self.rng(mc["args"][0], env, at)
                if a and b:
                    return (min(a[0], b[0]), min(a[1], b[1]))
                return a or b
            return ty_range(mc["ty"]) or ty_range(result_ok(mc["ty"]) or "")
        if t == "bin":
            op = n[2]
            a, b = self.rng(n[4], env, at), self.rng(n[5], env, at)
            ta = ty_range(n[3])
            if op == "BitAnd":
                cands = [x[1] for x in (a, b) if x is not None and x[0] >= 0]
                return (0, min(cands)) if cands else ta
            if a is None:
                a = ta
            if b is None:
                b = ta if op not in ("Shl", "Shr") else None
            if a is None or b is None:
                return None
            if op == "Add":
                return (a[0] + b[0], a[1] + b[1])
            if op == "Sub":
                return (a[0] - b[1], a[1] - b[0])
            if op == "Mul":
                c = [a[0] * b[0], a[0] * b[1], a[1] * b[0], a[1] * b[1]]
                return (min(c), max(c))
            if op == "Div" and b[0] > 0 and a[0] >= 0:
                return (a[0] // b[1], a[1] // b[0])
            if op == "Rem" and b[0] > 0 and a[0] >= 0:
                return (0, min(a[1], b[1] - 1))
            if op == "Shl" and b[0] >= 0 and b[1] < 128 and a[0] >= 0:
                return (a[0] << b[0], a[1] << b[1])
            if op == "Shr" and b[0] >= 0 and a[0] >= 0:
                return (a[0] >> min(b[1], 127), a[1] >> b[0])
            if op == "BitOr" and a[0] >= 0 and b[0] >= 0:
                return (0, (1 << max(a[1].bit_length(), b[1].bit_length())) - 1)
            return None
        if t == "block":
            if not n[1] and n[2] is not None:
                return self.rng(n[2], env, at)
            e2 = env.child()
            seq = at if at is not None else 0
            for s in n[1]:
                if s[0] == "let" and H.tag(s[1]) == "bind" and s[2] is not None:
                    e2.set(s[1][1], ("expr", s[2], e2, s[1][4], seq), seq)
            return self.rng(n[2], e2, at) if n[2] is not None else None
        if t == "field":
            base = H.strip_refs(n[1])
            if H.tag(base) == "local" and n[2] == "size":
                b = env.get(base[1], at)
                ty = b[3] if b is not None and b[0] == "expr" else (b[1] if b is not None and b[0] in ("type", "param") else None)
                if ty and (ty.endswith("::ServerHeader") or ty.endswith("::ClientHeader")):
                    return (0, HEADER_SIZE_MAX if ty.endswith("::ServerHeader") else 0xFFFF)
            return None
        if t == "idx":
            bt = (n[2] or "")
            if "u8" in bt:
                return (0, 255)
            return None
        if t == "if":
            return union(self.rng(n[2], env, at), self.rng(n[3], env, at) if n[3] is not None else None)
        return None


def mutated_names(hir):
    out = set()
    for n in H.walk(hir):
        t = H.tag(n)
        if t in ("asg", "asgop"):
            tgt = H.strip(n[1] if t == "asg" else n[4])
            nm = H.local_name(tgt)
            if nm:
                out.add(nm)
    return out


def tail_tuple(ranger, blk, env, at):
    """component ranges of the tuple a block evaluates to (let-bindings inside the block are honoured)"""
    b = blk
    while H.tag(b) == "mac":
        b = b[2]
    if H.tag(b) == "block":
        e2 = env.child()
        for s in b[1]:
            if s[0] == "let" and H.tag(s[1]) == "bind" and s[2] is not None:
                e2.set(s[1][1], ("expr", s[2], e2, s[1][4], at), at)
        if b[2] is None:
            return None
        return tail_tuple(ranger, b[2], e2, at)
    if H.tag(b) == "tup":
        return [ranger.rng(x, env, at) for x in b[1]]
    if H.tag(b) == "if":
        a = tail_tuple(ranger, b[2], env, at)
        c = tail_tuple(ranger, b[3], env, at) if b[3] is not None else None
        if a is None or c is None or len(a) != len(c):
            return None
        return [union(x, y) for x, y in zip(a, c)]
    return None


class Walker:
    """Walk a body in order; `on_node(node, env, loops, seq)` is called for every node."""

    def __init__(self, ranger, on_node):
        self.r = ranger
        self.on_node = on_node
        self.seq = 0

    def bind_let(self, st, env):
        self.seq += 1
        pat = st[1]
        if H.tag(pat) == "bind":
            if st[2] is not None:
                env.set(pat[1], ("expr", st[2], env, pat[4], self.seq - 1), self.seq)
            else:
                env.set(pat[1], ("type", pat[4]), self.seq)
        elif H.tag(pat) == "ptup":
            comps = tail_tuple(self.r, st[2], env, self.seq - 1) if st[2] is not None else None
            for k, q in enumerate(pat[1]):
                if H.tag(q) == "bind":
                    r = comps[k] if comps and k < len(comps) else None
                    tr = ty_range(q[4])
                    if r is not None and (tr is None or (tr[0] <= r[0] and r[1] <= tr[1])):
                        env.set(q[1], ("range", r[0], r[1]), self.seq)
                    else:
                        env.set(q[1], ("type", q[4]), self.seq)
        else:
            for q in H.walk(pat):
                if H.tag(q) == "bind":
                    env.set(q[1], ("type", q[4]), self.seq)

    def note_guard(self, stmt_expr, env):
        """`if X > C { return Err(..) }` establishes an allocation guard on X and on the locals X was computed from"""
        g = H.strip(stmt_expr)
        if H.tag(g) == "if" and g[3] is None and any(H.tag(x) == "ret" for x in H.walk(g[2])):
            c = H.strip(g[1])
            if H.tag(c) == "bin" and c[2] in ("Gt", "Ge") and (H.lit_int(c[5]) is not None or H.tag(H.strip(c[5])) == "path"):
                self.seq += 1
                for y in H.walk(c[4]):
                    if H.tag(y) != "local":
                        continue
                    v = y[1]
                    env.set("#guard:" + v, ("guard",), self.seq)
                    b = env.get(v, self.seq)
                    if b and b[0] == "expr":
                        for x in H.walk(b[1]):
                            if H.tag(x) == "local":
                                env.set("#guard:" + x[1], ("guard",), self.seq)

    def walk(self, n, env, loops=()):
        t = H.tag(n)
        if t is None:
            if isinstance(n, list):
                for c in n:
                    if isinstance(c, list):
                        self.walk(c, env, loops)
            return
        self.seq += 1
        if self.on_node:
            self.on_node(n, env, loops, self.seq)
        if t == "block":
            e2 = env.child()
            for s in n[1]:
                if s[0] == "let":
                    if s[2] is not None:
                        self.walk(s[2], e2, loops)
                    if s[3] is not None:
                        self.walk(s[3], e2, loops)
                    self.bind_let(s, e2)
                elif s[0] in ("semi", "expr"):
                    self.walk(s[1], e2, loops)
                    self.note_guard(s[1], e2)
            if n[2] is not None:
                self.walk(n[2], e2, loops)
            return
        if t == "for":
            pat, it, body = n[1], n[2], n[3]
            self.walk(it, env, loops)
            e2 = env.child()
            ie = H.strip(it)
            bound = None
            enum_bound = None
            if H.tag(ie) == "struct" and ie[1].endswith("::Range"):
                f = dict((a, b) for a, b in ie[2])
                lo = self.r.rng(f.get("start"), env, self.seq)
                hi = self.r.rng(f.get("end"), env, self.seq)
                if lo and hi:
                    bound = (lo[0], max(hi[1] - 1, lo[0]))
            if H.is_mcall(ie) and H.mcall(ie)["name"] == "enumerate":
                inner = H.strip(H.mcall(ie)["recv"])
                if H.is_mcall(inner) and H.mcall(inner)["name"] in ("iter", "iter_mut"):
                    m = re.search(r"; (\d+)\]$", (H.mcall(inner).get("recv_ty_unadj") or "").replace("&mut ", "").replace("&", ""))
                    if m:
                        enum_bound = (0, int(m.group(1)) - 1)
            p = pat
            if H.tag(p) == "ps" and p[2]:
                p = p[2][0][1]
            elif H.tag(p) == "ts" and p[2]:
                p = p[2][0]
            self.seq += 1
            if H.tag(p) == "bind":
                e2.set(p[1], ("range", bound[0], bound[1]) if bound else ("type", p[4]), self.seq)
            elif H.tag(p) == "ptup":
                for k, q in enumerate(p[1]):
                    qq = q
                    while H.tag(qq) in ("pref", "pderef"):
                        qq = qq[1]
                    if H.tag(qq) == "bind":
                        if k == 0 and enum_bound:
                            e2.set(qq[1], ("range", enum_bound[0], enum_bound[1]), self.seq)
                        else:
                            e2.set(qq[1], ("type", qq[4]), self.seq)
            self.walk(body, e2, loops + (n,))
            return
        if t in ("while", "loop"):
            if t == "while":
                self.walk(n[1], env, loops + (n,))
            self.walk(n[2], env, loops + (n,))
            return
        if t == "closure":
            e2 = env.child()
            self.seq += 1
            for p in n[2]:
                if H.tag(p) == "bind":
                    e2.set(p[1], ("type", p[4]), self.seq)
            self.walk(n[3], e2, loops)
            return
        if t == "match":
            self.walk(n[1], env, loops)
            for pat, guard, body in n[3]:
                e2 = env.child()
                self.seq += 1
                for q in H.walk(pat):
                    if H.tag(q) == "bind":
                        e2.set(q[1], ("type", q[4]), self.seq)
                if guard is not None:
                    self.walk(guard, e2, loops)
                self.walk(body, e2, loops)
            return
        if t == "if":
            c = H.strip(n[1])
            e2 = env.child()
            if H.tag(c) == "letexpr":
                self.walk(c[2], env, loops)
                self.seq += 1
                for q in H.walk(c[1]):
                    if H.tag(q) == "bind":
                        e2.set(q[1], ("type", q[4]), self.seq)
            else:
                self.walk(n[1], env, loops)
            self.walk(n[2], e2, loops)
            if n[3] is not None:
                self.walk(n[3], env, loops)
            return
        if t == "struct":
            for f in n[2]:
                self.walk(f[1], env, loops)
            if n[3] is not None:
                self.walk(n[3], env, loops)
            return
        if t == "ps":
            return
        for c in n[1:]:
            if isinstance(c, list):
                self.walk(c, env, loops)
