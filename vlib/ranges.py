"""Interval analysis over typed HIR expressions, evaluated at a given site inside a function body (C03 discharge).

`Walker` traverses a body in evaluation order keeping a scoped environment whose bindings carry walk sequence numbers
(let-bindings, for-range variables, tuple destructuring of if-expressions, allocation guards); every node is reported
with the environment and the sequence number at which it occurs, so operand ranges are computed with exactly the
facts that precede the site."""
import re

from . import hir as H
from .intconv import INT_TYPES, int_range

LEN_MAX = 1 << 47  # in-memory-size axiom: any live Vec/String/slice length (user address space on x86-64)
SIZE_MAX = 1 << 56  # wire size of a live object: a bounded multiple of its in-memory size
HEADER_SIZE_MAX = 0xFFFFFF  # a world header's size field has at most 3 bytes


def ty_range(ty):
    if ty in INT_TYPES:
        return int_range(ty)
    if ty == "bool":
        return (0, 1)
    return None


def result_ok(ty):
    """Result<T, E> / Future<Output=Result<T,E>> -> T"""
    if not ty:
        return None
    i = ty.find("std::result::Result<")
    if i < 0:
        return None
    inner = ty[i + len("std::result::Result<"):]
    depth = 0
    for j, ch in enumerate(inner):
        if ch == "<":
            depth += 1
        elif ch == ">":
            if depth == 0:
                return inner[:j]
            depth -= 1
        elif ch == "," and depth == 0:
            return inner[:j]
    return None


def union(a, b):
    if a is None or b is None:
        return None
    return (min(a[0], b[0]), max(a[1], b[1]))


class Env:
    def __init__(self, parent=None):
        self.vars = {}
        self.parent = parent

    def set(self, k, v, seq):
        self.vars.setdefault(k, []).append((seq, v))
        if not k.startswith("#"):
            # a new binding of this name (possibly shadowing an outer one): facts recorded about the outer variable do not describe it
            for pre in ("#ref:", "#guard:", "#len:"):
                if self.get(pre + k, seq) is not None:
                    self.vars.setdefault(pre + k, []).append((seq, ("dead",)))

    def get(self, k, at=None):
        e = self
        while e is not None:
            lst = e.vars.get(k)
            if lst:
                for seq, v in reversed(lst):
                    if at is None or seq <= at:
                        return v
            e = e.parent
        return None

    def child(self):
        return Env(self)

    def kill(self, k, seq):
        """the fact recorded under k stops holding at seq, in every scope that records it (so it does not reappear when an inner scope ends)"""
        e = self
        hit = False
        while e is not None:
            if k in e.vars:
                e.vars[k].append((seq, ("dead",)))
                hit = True
            e = e.parent
        if not hit:
            self.vars.setdefault(k, []).append((seq, ("dead",)))


def intersect(r, ref):
    """r: (lo, hi) or None; ref: ("ref"|"inv", lo|None, hi|None)"""
    lo, hi = ref[1], ref[2]
    if r is None:
        return (lo, hi) if lo is not None and hi is not None else None
    a = r[0] if lo is None else max(r[0], lo)
    b = r[1] if hi is None else min(r[1], hi)
    return (a, b) if a <= b else r


class _LazyFields:
    """field name -> range, answered by the owner's param_field_range(param, field) on demand"""

    def __init__(self, f, name):
        self.f, self.name, self.memo = f, name, {}

    def get(self, k):
        if k not in self.memo:
            self.memo[k] = self.f(self.name, k)
        return self.memo[k]

    def __contains__(self, k):
        return self.get(k) is not None

    def __getitem__(self, k):
        return self.get(k)

    def __bool__(self):
        return True


class Ranger:
    def __init__(self, mutated, consts=None, param_range=None):
        self.mutated = mutated  # names assigned after initialisation
        self.consts = consts or (lambda p: None)
        self.param_range = param_range or (lambda name: None)
        self.depth = 0
        self._refmemo = {}
        self._keep = []
        self.adt_range = None  # type path -> (lo, hi) of the discriminants of a fieldless enum
        self.const_hir = None  # const path -> HIR of its initialiser
        self.fn_of = None  # fn path -> fn record (for inlining small helpers)
        self.param_field_range = None  # (param name, field) -> range over all call sites (constant struct arguments)
        self.guard_fn = None  # path -> (index of the guarded argument, index of the bound argument) for guard helper functions
        self.grown = set()  # names of collections that grow after their initialisation (set by the Walker's owner)
        self.call_concrete = None  # (fn path, [int]) -> value of the call, evaluated by an interpreter (set by the owner), or None

    def rng(self, n, env, at=None):
        self.depth += 1
        try:
            if self.depth > 60:
                return None
            return self._rng(n, env, at)
        finally:
            self.depth -= 1

    GROWING = ("push", "insert", "extend", "extend_from_slice", "append", "resize", "resize_with", "push_str", "push_back", "push_front")
    SHRINKING_ADAPTORS = ("map", "filter", "filter_map", "enumerate", "take_while", "skip", "skip_while", "inspect", "rev", "copied", "cloned", "peekable", "fuse", "by_ref", "map_while", "step_by")

    def len_bound(self, n, env, at):
        """an upper bound of the number of elements of a collection / iterator expression, or None"""
        self.depth += 1
        try:
            if self.depth > 40:
                return None
            n = H.strip_refs(n)
            t = H.tag(n)
            if t in ("try", "await"):
                return self.len_bound(n[1], env, at)
            if t == "local":
                if n[1] in self.grown:
                    lf = env.get("#len:" + n[1], at)
                    return lf[1] if lf is not None and lf[0] == "len" else None
                b = env.get(n[1], at)
                if b is not None and b[0] == "expr":
                    m = re.search(r"; (\d+)\]$", (b[3] or "").replace("&mut ", "").replace("&", ""))
                    if m:
                        return int(m.group(1))
                    return self.len_bound(b[1], b[2], b[4])
                return None
            if t == "struct" and n[1].endswith("::Range"):
                f = dict((a, b) for a, b in n[2])
                lo, hi = self.rng(f.get("start"), env, at), self.rng(f.get("end"), env, at)
                return max(hi[1] - lo[0], 0) if lo and hi else None
            if t == "idx":
                # a sub-slice `a[..n]` / `a[m..n]` / `a[m..]` of an array or slice
                m_ = re.search(r"; (\d+)\]$", (n[2] or "").replace("&mut ", "").replace("&", ""))
                whole = int(m_.group(1)) if m_ else self.len_bound(n[3], env, at)
                r_ = H.strip(n[4])
                if H.tag(r_) == "struct" and r_[1].split("<")[0].endswith(("::RangeTo", "::Range", "::RangeFrom", "::RangeFull")):
                    f_ = dict((a, b) for a, b in r_[2])
                    en_ = self.rng(f_["end"], env, at) if "end" in f_ else None
                    c_ = [x for x in (whole, en_[1] if en_ else None) if x is not None]
                    return min(c_) if c_ else None
                return None
            if t == "call":
                p = H.call_path(n) or ""
                args = H.call_args(n)
                if p.endswith("::from_elem") and len(args) == 2:
                    r = self.rng(args[1], env, at)
                    return r[1] if r else None
                if p.endswith("RangeInclusive::<Idx>::new") and len(args) == 2:
                    lo, hi = self.rng(args[0], env, at), self.rng(args[1], env, at)
                    return max(hi[1] - lo[0] + 1, 0) if lo and hi else None
                return None
            if t == "mcall":
                mc = H.mcall(n)
                nm = mc["name"]
                m = re.search(r"; (\d+)\]$", (mc.get("recv_ty_unadj") or "").replace("&mut ", "").replace("&", ""))
                if nm in ("iter", "iter_mut", "into_iter", "as_slice", "as_mut_slice", "clone", "to_vec", "unwrap") or nm in self.SHRINKING_ADAPTORS:
                    if m and nm in ("iter", "iter_mut", "into_iter", "as_slice"):
                        return int(m.group(1))
                    return self.len_bound(mc["recv"], env, at)
                if nm == "collect":
                    return self.len_bound(mc["recv"], env, at)
                if nm == "take" and len(mc["args"]) == 1:
                    a = self.len_bound(mc["recv"], env, at)
                    k = self.rng(mc["args"][0], env, at)
                    c = [x for x in (a, k[1] if k else None) if x is not None]
                    return min(c) if c else None
                if nm == "zip" and len(mc["args"]) == 1:
                    c = [x for x in (self.len_bound(mc["recv"], env, at), self.len_bound(mc["args"][0], env, at)) if x is not None]
                    return min(c) if c else None
                if nm in ("chunks", "windows", "chunks_exact"):
                    return self.len_bound(mc["recv"], env, at)
                return None
            return None
        finally:
            self.depth -= 1

    def inline_range(self, path, args, env, at):
        """range of a call to a small crate function: its body evaluated with the parameters bound to the ranges of the arguments"""
        if self.fn_of is None or not path or not path.startswith(("crate::", "<crate::")) or self.depth > 30:
            return None
        fn = self.fn_of(path)
        if fn is None or fn.get("hir") is None or len(fn["params"]) != len(args):
            return None
        body = H.strip(fn["hir"])
        n_nodes = sum(1 for _ in H.walk(body))
        if n_nodes <= 2500 and any(H.tag(x) in ("for", "while", "loop") for x in H.walk(body)) and not any(H.tag(x) == "ret" for x in H.walk(body)):
            return self.summary_range(fn, args, env, at)
        if n_nodes > 2500 or any(H.tag(x) in ("for", "while", "loop") for x in H.walk(body)):
            return None
        # early returns are followed only in the form `if c { return e; }` as a statement of the function's outermost block
        n_ret = sum(1 for x in H.walk(body) if H.tag(x) == "ret")
        if n_ret:
            top = [H.strip(st[1]) for st in (body[1] if H.tag(body) == "block" else []) if st[0] in ("semi", "expr")]
            plain = [g for g in top if H.tag(g) == "if" and g[3] is None and self._ret_of(g[2]) is not None]
            if len(plain) != n_ret:
                return None
        e2 = Env()
        for p, a in zip(fn["params"], args):
            if H.tag(p) != "bind":
                return None
            r = self.rng(a, env, at)
            a0 = H.strip_refs(a)
            fmap = None
            if H.tag(a0) == "path" and self.const_hir is not None:
                lit = H.strip(self.const_hir(a0[1]) or [])
                if H.tag(lit) == "struct":
                    fmap = {f: self.rng(fv, env, at) for f, fv in lit[2]}
                    fmap = {k: v for k, v in fmap.items() if v is not None}
            if not fmap and r is None and H.tag(a0) == "local" and self.param_field_range is not None:
                b0 = env.get(a0[1], at)
                if b0 is not None and b0[0] == "param" and (b0[1] or "").replace("&mut ", "").lstrip("&") not in INT_TYPES:
                    # the argument is a parameter of the calling function handed on (`self.unit()` inside `extract(&self, ..)`): its fields
                    # have the ranges the callers of the calling function give them
                    fmap = _LazyFields(self.param_field_range, a0[1])
                elif b0 is not None and b0[0] == "fieldmap":
                    fmap = b0[1]
            if fmap:
                e2.set(p[1], ("fieldmap", fmap), 0)
            elif r is not None:
                e2.set(p[1], ("range", r[0], r[1]), 0)
            else:
                e2.set(p[1], ("type", p[4]), 0)
        saved = (self.mutated, self.param_range, self.param_field_range)
        self.mutated, self.param_range, self.param_field_range = set(), (lambda name: None), None
        try:
            r = self.rng(body, e2, 0)
        finally:
            self.mutated, self.param_range, self.param_field_range = saved
        tr = ty_range(fn.get("output") or "")
        if r is not None and tr is not None and not (tr[0] <= r[0] and r[1] <= tr[1]):
            # a value of the output type lies within the type (an overflow inside the helper is a panic site of the helper itself)
            if r[0] <= tr[1] and tr[0] <= r[1]:
                return (max(r[0], tr[0]), min(r[1], tr[1]))
            return None
        return r

    def summary_range(self, fn, args, env, at):
        """range of the value of a helper with loops: its body is walked flow-sensitively (loop counters, accumulators) with the parameters
        bound to the ranges of the arguments; the value is the tail of the body where the body ends"""
        body = H.strip(fn["hir"])
        if H.tag(body) != "block" or body[2] is None or self.depth > 30:
            return None
        key = (fn["path"], tuple(self.rng(a, env, at) for a in args))
        memo = self.__dict__.setdefault("_summaries", {})
        if key in memo:
            return memo[key]
        memo[key] = None
        e2 = Env()
        for p, a, r in zip(fn["params"], args, key[1]):
            if H.tag(p) != "bind":
                return None
            if r is not None:
                e2.set(p[1], ("range", r[0], r[1]), 0)
            else:
                e2.set(p[1], ("type", p[4]), 0)
        saved = (self.mutated, self.param_range, self.param_field_range, self.grown)
        self.mutated, self.param_range, self.param_field_range, self.grown = mutated_names(body), (lambda name: None), None, grown_names(body)
        try:
            self.depth += 1
            w = Walker(self, None)
            w.walk(body, e2)
            r = w.block_tail.get(id(body))
        finally:
            self.depth -= 1
            self.mutated, self.param_range, self.param_field_range, self.grown = saved
        tr = ty_range(fn.get("output") or "")
        if r is not None and tr is not None:
            if r[0] <= tr[1] and tr[0] <= r[1]:
                r = (max(r[0], tr[0]), min(r[1], tr[1]))
            else:
                r = None
        memo[key] = r
        return r

    @staticmethod
    def _ret_of(blk):
        """the expression e of a block that is just `return e;` / `return e`, else None"""
        b = H.strip(blk)
        if H.tag(b) == "ret":
            return b[1] if len(b) > 1 else None
        if H.tag(b) == "block":
            sts = [st for st in b[1] if st[0] != "item"]
            if len(sts) == 1 and b[2] is None and sts[0][0] in ("semi", "expr") and H.tag(H.strip(sts[0][1])) == "ret":
                r = H.strip(sts[0][1])
                return r[1] if len(r) > 1 else None
            if not sts and b[2] is not None and H.tag(H.strip(b[2])) == "ret":
                r = H.strip(b[2])
                return r[1] if len(r) > 1 else None
        return None

    def resolve_ref(self, ref):
        """-> ("ref"|"inv", lo, hi) or None for a recorded fact, evaluating a condition recorded by Walker.refine on first use"""
        if ref is None or ref[0] == "dead":
            return None
        if ref[0] in ("ref", "inv"):
            return ref
        key = id(ref)
        if key in self._refmemo:
            return self._refmemo[key]
        self._refmemo[key] = None  # a cycle through the same fact contributes nothing
        _k, op, lhs, rhs, env, seq, prev = ref
        lo = hi = None
        r = self.rng(rhs, env, seq)
        if r is not None and "/" in op:
            op, k = op.split("/")
            k = int(k)
            hi = (r[1] - 1 if op == "Lt" else r[1]) // k
            r = None
        if r is not None:
            if op == "Lt":
                hi = r[1] - 1
            elif op == "Le":
                hi = r[1]
            elif op == "Gt":
                lo = r[0] + 1
            elif op == "Ge":
                lo = r[0]
            elif op == "Eq":
                lo, hi = r
            elif op == "Ne" and r[0] == r[1]:
                cur = self.rng(lhs, env, seq)
                if cur is not None and cur[0] == r[0]:
                    lo = r[0] + 1
                elif cur is not None and cur[1] == r[0]:
                    hi = r[0] - 1
        kind = "ref"
        p = self.resolve_ref(prev)
        if p is not None:
            if p[1] is not None:
                lo = p[1] if lo is None else max(lo, p[1])
            if p[2] is not None:
                hi = p[2] if hi is None else min(hi, p[2])
            kind = p[0]
        out = (kind, lo, hi) if (lo is not None or hi is not None) and not (lo is not None and hi is not None and lo > hi) else p
        self._refmemo[key] = out
        self._keep.append(ref)
        return out

    def binding_range(self, name, b):
        if b[0] == "range":
            return (b[1], b[2])
        if b[0] == "expr":
            if name in self.mutated:
                return ty_range(b[3]) if b[3] else None
            r = self.rng(b[1], b[2], b[4])
            tr = ty_range(b[3]) if b[3] else None
            if r is None:
                return tr
            if tr is not None and not (tr[0] <= r[0] and r[1] <= tr[1]):
                # a value of the type lies within the type (leaving it is a panic site of the initialiser itself)
                if r[0] <= tr[1] and tr[0] <= r[1]:
                    return (max(r[0], tr[0]), min(r[1], tr[1]))
                return tr
            return r
        if b[0] == "param":
            r = self.param_range(name)
            return r if r is not None else ty_range(b[1])
        if b[0] == "type":
            return ty_range(b[1])
        return None

    def _rng(self, n, env, at):
        n = H.strip(n)
        t = H.tag(n)
        if t in ("try", "await"):
            return self.rng(n[1], env, at)
        if t == "lit":
            if n[1] == "int":
                v = int(n[2])
                return (v, v)
            return None
        if t == "local":
            b = env.get(n[1], at)
            r = self.binding_range(n[1], b) if b is not None else None
            ref = self.resolve_ref(env.get("#ref:" + n[1], at))
            if ref is not None:
                r = intersect(r, ref)
            return r
        if t == "path":
            c = self.consts(n[1])
            if c is None:
                m = re.search(r"<impl ([iu](?:8|16|32|64|128|size))>::(MAX|MIN)$", n[1])
                if m:
                    tr = ty_range(m.group(1))
                    c = tr[1] if m.group(2) == "MAX" else tr[0]
            return (c, c) if c is not None else None
        if t in ("ref", "refmut"):
            return self.rng(n[1], env, at)
        if t == "un":
            return self.rng(n[4], env, at) if n[2] == "Deref" else None
        if t == "cast":
            r = self.rng(n[4], env, at)
            tr = ty_range(n[3])
            if r is None and self.adt_range is not None and n[2] not in INT_TYPES:
                r = self.adt_range(n[2])  # a fieldless enum cast to an integer: the range of its discriminants
            if r is None:
                r = ty_range(n[2])
            if tr is None:
                return r
            if r is not None and tr[0] <= r[0] and r[1] <= tr[1]:
                return r
            return tr
        if t == "call":
            p = H.call_path(n) or ""
            args = H.call_args(n)
            last = p.split("::")[-1]
            if p == "std::convert::From::from" and len(args) == 1:
                ga = H.call_gargs(n)
                r = self.rng(args[0], env, at)
                if r is None and len(ga) >= 2 and ga[1] == "bool":
                    return (0, 1)
                return r if r is not None else (ty_range(ga[0]) if ga else None)
            if last in ("from_be_bytes", "from_le_bytes") and len(args) == 1:
                ty = p.split("<impl ")[1].split(">")[0] if "<impl " in p else None
                tr = ty_range(ty)
                a = H.strip(args[0])
                if H.tag(a) == "array" and tr and last == "from_be_bytes":
                    hi = 0
                    for e in a[1]:
                        er = self.rng(e, env, at) or (0, 255)
                        hi = (hi << 8) | min(max(er[1], 0), 255)
                    return (0, hi)
                return tr
            if last == "size_of":
                ga = H.call_gargs(n)
                w = {"u8": 1, "u16": 2, "u32": 4, "u64": 8, "f32": 4, "i32": 4}.get(ga[0] if ga else "")
                return (w, w) if w else None
            inl = self.inline_range(p, args, env, at)
            if inl is not None:
                return inl
            ok = result_ok(n[4]) if len(n) > 4 else None
            if ok:
                return ty_range(ok)
            return ty_range(n[4]) if len(n) > 4 and n[4] else None
        if t == "mcall":
            mc = H.mcall(n)
            nm = mc["name"]
            if nm == "len" and not mc["args"]:
                m = re.search(r"; (\d+)\]$", (mc.get("recv_ty_unadj") or "").replace("&mut ", "").replace("&", ""))
                if m:
                    return (int(m.group(1)), int(m.group(1)))
                lb = self.len_bound(mc["recv"], env, at)
                return (0, lb if lb is not None else LEN_MAX)
            if nm in ("size", "size_uncompressed") and not mc["args"]:
                return (0, SIZE_MAX)
            if nm == "sum" and not mc["args"]:
                # v.iter().map(|x| f(x)).sum(): at most len(v) terms, each within the range of f
                inner_ = H.strip(mc["recv"])
                if H.is_mcall(inner_) and H.mcall(inner_)["name"] == "map" and len(H.mcall(inner_)["args"]) == 1:
                    im_ = H.mcall(inner_)
                    cl_ = H.strip(im_["args"][0])
                    lb_ = self.len_bound(im_["recv"], env, at)
                    if lb_ is not None and H.tag(cl_) == "closure":
                        e3 = env.child()
                        for p_ in cl_[2]:
                            q_ = p_
                            while H.tag(q_) in ("pref", "pderef"):
                                q_ = q_[1]
                            if H.tag(q_) == "bind":
                                e3.set(q_[1], ("type", q_[4]), at if at is not None else 0)
                        br_ = self.rng(cl_[3], e3, at)
                        if br_ is not None and br_[0] >= 0:
                            return (0, lb_ * br_[1])
                return None
            if nm == "pow" and len(mc["args"]) == 1 and (mc["path"] or "").startswith("std::num::"):
                b_, e_ = self.rng(mc["recv"], env, at), self.rng(mc["args"][0], env, at)
                if b_ is not None and e_ is not None and b_[0] >= 1 and 0 <= e_[0] and e_[1] <= 128 and b_[1] <= (1 << 16):
                    return (b_[0] ** e_[0], b_[1] ** e_[1])
                return None
            if nm in ("into", "try_into", "unwrap", "clone") and not mc["args"]:
                r = self.rng(mc["recv"], env, at)
                if r is not None:
                    return r
                return ty_range(mc["gargs"][1]) if nm == "into" and len(mc["gargs"]) == 2 else None
            if nm == "saturating_sub" and len(mc["args"]) == 1:
                a, b = self.rng(mc["recv"], env, at), self.rng(mc["args"][0], env, at)
                if a and b:
                    return (max(0, a[0] - b[1]), max(0, a[1] - b[0]))
                return a
            if nm in ("count_ones", "leading_zeros", "trailing_zeros", "count_zeros", "leading_ones", "trailing_ones"):
                mt = re.search(r"<impl (\w+)>", mc["path"] or "")
                bits = INT_TYPES.get(mt.group(1), (128,))[0] if mt else 128
                if nm in ("leading_zeros", "trailing_zeros"):
                    rr = self.rng(mc["recv"], env, at)
                    if rr is not None and (rr[0] >= 1 or rr[1] <= -1):
                        return (0, bits - 1)  # a non-zero value has a set bit: fewer than `bits` zeros before it
                return (0, bits)
            if nm == "min" and len(mc["args"]) == 1:
                a, b = self.rng(mc["recv"], env, at), self.rng(mc["args"][0], env, at)
                if a and b:
                    return (min(a[0], b[0]), min(a[1], b[1]))
                return a or b
            inl = self.inline_range(mc["path"], [mc["recv"]] + mc["args"], env, at)
            if inl is not None:
                return inl
            return ty_range(mc["ty"]) or ty_range(result_ok(mc["ty"]) or "")
        if t == "bin":
            op = n[2]
            a, b = self.rng(n[4], env, at), self.rng(n[5], env, at)
            ta = ty_range(n[3])
            if op == "BitAnd":
                cands = [x[1] for x in (a, b) if x is not None and x[0] >= 0]
                return (0, min(cands)) if cands else ta
            if a is None:
                a = ta
            if b is None:
                b = ta if op not in ("Shl", "Shr") else None
            if a is None or b is None:
                return None
            if op == "Add":
                return (a[0] + b[0], a[1] + b[1])
            if op == "Sub":
                return (a[0] - b[1], a[1] - b[0])
            if op == "Mul":
                c = [a[0] * b[0], a[0] * b[1], a[1] * b[0], a[1] * b[1]]
                return (min(c), max(c))
            if op == "Div" and b[0] > 0 and a[0] >= 0:
                return (a[0] // b[1], a[1] // b[0])
            if op == "Rem" and b[0] > 0 and a[0] >= 0:
                return (0, min(a[1], b[1] - 1))
            if op == "Shl" and b[0] >= 0 and b[1] < 128 and a[0] >= 0:
                return (a[0] << b[0], a[1] << b[1])
            if op == "Shr" and b[0] >= 0 and a[0] >= 0:
                return (a[0] >> min(b[1], 127), a[1] >> b[0])
            if op == "BitOr" and a[0] >= 0 and b[0] >= 0:
                return (0, (1 << max(a[1].bit_length(), b[1].bit_length())) - 1)
            return None
        if t == "block":
            if not n[1] and n[2] is not None:
                return self.rng(n[2], env, at)
            e2 = env.child()
            seq = at if at is not None else 0
            rets = []
            for s in n[1]:
                if s[0] == "let" and H.tag(s[1]) == "bind" and s[2] is not None:
                    e2.set(s[1][1], ("expr", s[2], e2, s[1][4], seq), seq)
                elif s[0] in ("semi", "expr"):
                    g = H.strip(s[1])
                    if H.tag(g) == "if" and g[3] is None and self._ret_of(g[2]) is not None:
                        # `if c { return e; }`: e is one of the values of the enclosing function body (the condition is not used)
                        rr = self.rng(self._ret_of(g[2]), e2, at)
                        if rr is None:
                            return None
                        rets.append(rr)
            out = self.rng(n[2], e2, at) if n[2] is not None else None
            for rr in rets:
                out = union(out, rr)
            return out
        if t == "field":
            base = H.strip_refs(n[1])
            if H.tag(base) == "local":
                b = env.get(base[1], at)
                if b is not None and b[0] == "param" and self.param_field_range is not None:
                    r = self.param_field_range(base[1], n[2])
                    if r is not None:
                        return r
                if b is not None and b[0] == "fieldmap" and n[2] in b[1]:
                    return b[1][n[2]]
            if H.tag(base) == "path" and self.const_hir is not None:
                lit = H.strip(self.const_hir(base[1]) or [])
                if H.tag(lit) == "struct":
                    for fname, fv in lit[2]:
                        if fname == n[2]:
                            return self.rng(fv, env, at)
            if H.tag(base) == "local" and n[2] == "size":
                b = env.get(base[1], at)
                ty = b[3] if b is not None and b[0] == "expr" else (b[1] if b is not None and b[0] in ("type", "param") else None)
                if ty and (ty.endswith("::ServerHeader") or ty.endswith("::ClientHeader")):
                    return (0, HEADER_SIZE_MAX if ty.endswith("::ServerHeader") else 0xFFFF)
            return None
        if t == "idx":
            bt = (n[2] or "")
            base = H.strip_refs(n[3])
            if H.tag(base) == "path" and self.const_hir is not None:
                arr = H.strip(self.const_hir(base[1]) or [])
                if H.tag(arr) == "array":
                    rs = [self.rng(e, env, at) for e in arr[1]]
                    if rs and all(r is not None for r in rs):
                        return (min(r[0] for r in rs), max(r[1] for r in rs))  # any element of a constant table
            if "u8" in bt:
                return (0, 255)
            return None
        if t == "if":
            if n[3] is not None and diverges(n[2]):
                return self.rng(n[3], env, at)
            if n[3] is not None and diverges(n[3]):
                return self.rng(n[2], env, at)
            return union(self.rng(n[2], env, at), self.rng(n[3], env, at) if n[3] is not None else None)
        if t == "match":
            sr = self.rng(n[1], env, at)
            seen = []
            out = None
            first = True
            for pat, guard, body in n[3]:
                e2 = env.child()
                seq = at if at is not None else 0
                for q in H.walk(pat):
                    if H.tag(q) == "bind":
                        e2.set(q[1], ("type", q[4]), seq)
                if H.tag(pat) == "lit" and pat[1] == "int" and guard is None:
                    seen.append(int(pat[2]))
                elif H.tag(pat) == "bind" and pat[5] is None and sr is not None:
                    lo_, hi_ = sr
                    while lo_ in seen:
                        lo_ += 1
                    while hi_ in seen:
                        hi_ -= 1
                    if lo_ <= hi_:
                        e2.set(pat[1], ("range", lo_, hi_), seq)
                if diverges(body):
                    continue
                r = self.rng(body, e2, at)
                if r is None:
                    return None
                out = r if first else union(out, r)
                first = False
            return out
        return None


def subst_local(n, old, new):
    """the tree with every use of local `old` replaced by local `new`"""
    if isinstance(n, list):
        if len(n) >= 2 and n[0] == "local" and n[1] == old:
            return ["local", new] + n[2:]
        return [subst_local(c, old, new) for c in n]
    if isinstance(n, tuple):
        return tuple(subst_local(c, old, new) for c in n)
    return n


def mutated_names(hir):
    out = set()
    for n in H.walk(hir):
        t = H.tag(n)
        if t in ("asg", "asgop"):
            tgt = H.strip(n[1] if t == "asg" else n[4])
            nm = H.local_name(tgt)
            if nm:
                out.add(nm)
    return out


def guard_fn_summary(fn):
    """fn(.., x, .., max, ..) -> Result<(), E> whose only effect is `if x > max { return Err(..) }`: -> (index of x, index of max), else None"""
    if fn is None or fn.get("hir") is None or "Result<()" not in (fn.get("output") or "").replace(" ", "").replace("std::result::", ""):
        return None
    names = [p[1] if H.tag(p) == "bind" else None for p in fn["params"]]
    body = H.unwrap_async(fn["hir"])
    # no calls other than the error constructors, no loops
    for x in H.walk(body):
        t = H.tag(x)
        if t in ("for", "while", "loop", "mcall"):
            return None
        if t == "call" and not ("Ctor" in (H.strip(x[2])[2] if H.tag(H.strip(x[2])) == "path" else "") or (H.call_path(x) or "").split("::")[-1] in ("Ok", "Err", "new")):
            return None
    ifs = [x for x in H.walk(body) if H.tag(x) == "if"]
    if len(ifs) != 1:
        return None
    c = H.strip(ifs[0][1])
    if H.tag(c) != "bin" or c[2] not in ("Gt", "Ge"):
        return None
    a, b = H.local_name(H.strip_refs(c[4])), H.local_name(H.strip_refs(c[5]))
    if a not in names or b not in names:
        return None
    then_err = any(H.tag(y) == "call" and (H.call_path(y) or "").endswith("::Err") for y in H.walk(ifs[0][2]))
    if not then_err:
        return None
    return (names.index(a), names.index(b))


def guard_fn_semantic(fn, call):
    """The same summary by evaluation: a function of two or three integers returning Result<(), E> that fails exactly when `x > max`
    (two parameters) or `x * k > max` (three) - found by calling it (call(path, [ints]) -> value) on a grid of values for every assignment of
    the roles.  -> (index of x, index of max) or (index of x, index of max, index of k), else None"""
    if fn is None or fn.get("hir") is None or "Result<()" not in (fn.get("output") or "").replace(" ", "").replace("std::result::", ""):
        return None
    n = len(fn["params"])
    if n not in (2, 3):
        return None
    import itertools
    grid = [0, 1, 2, 3, 7, 10, 100, 1000, 65535, 65536, 8388607, 8388608]

    def ok(res):
        return isinstance(res, tuple) and res and res[0] == "Ok"
    for roles in itertools.permutations(range(n)):
        xi, mi = roles[0], roles[1]
        ki = roles[2] if n == 3 else None
        good = True
        for x in grid:
            for mx in (0, 10, 1000, 65535, 8388607):
                for k in ((1, 2, 4, 12) if n == 3 else (1,)):
                    args = [0] * n
                    args[xi], args[mi] = x, mx
                    if ki is not None:
                        args[ki] = k
                    res = call(fn["path"], args)
                    if res is None or ok(res) != (x * k <= mx):
                        good = False
                        break
                if not good:
                    break
            if not good:
                break
        if good:
            return (xi, mi) if n == 2 else (xi, mi, ki)
    return None


def grown_names(hir):
    """collections whose length may change after initialisation: receivers of growing methods, targets of assignments, and
    anything handed out by `&mut`"""
    out = set()
    for n in H.walk(hir):
        t = H.tag(n)
        if t == "mcall" and n[2] in Ranger.GROWING + ("clear", "truncate", "pop", "remove", "drain", "retain", "dedup", "swap_remove", "split_off"):
            nm = H.local_name(H.strip_refs(H.mcall(n)["recv"]))
            if nm:
                out.add(nm)
        if t == "refmut":
            nm = H.local_name(H.strip(n[1]))
            if nm:
                out.add(nm)
        if t in ("asg", "asgop"):
            nm = H.local_name(H.strip(n[1] if t == "asg" else n[4]))
            if nm:
                out.add(nm)
    return out


NEG = {"Lt": "Ge", "Le": "Gt", "Gt": "Le", "Ge": "Lt", "Eq": "Ne", "Ne": "Eq"}
FLIP = {"Lt": "Gt", "Le": "Ge", "Gt": "Lt", "Ge": "Le", "Eq": "Eq", "Ne": "Ne"}


def diverges(n):
    """the expression never completes normally (return / break / continue / panic as its last action)"""
    n0 = n
    mac = None
    while H.tag(n) == "mac":
        mac = n[1]
        n = n[2]
    if mac in ("panic", "unreachable", "unimplemented", "todo"):
        return True
    t = H.tag(n)
    if t in ("ret", "break", "continue"):
        return True
    if t == "block":
        if n[2] is not None:
            return diverges(n[2])
        if n[1]:
            last = n[1][-1]
            if last[0] in ("semi", "expr"):
                return diverges(last[1])
        return False
    if t == "if":
        return n[3] is not None and diverges(n[2]) and diverges(n[3])
    return False


def tail_tuple(ranger, blk, env, at):
    """component ranges of the tuple a block evaluates to (let-bindings inside the block are honoured)"""
    b = blk
    while H.tag(b) == "mac":
        b = b[2]
    if H.tag(b) == "block":
        e2 = env.child()
        for s in b[1]:
            if s[0] == "let" and H.tag(s[1]) == "bind" and s[2] is not None:
                e2.set(s[1][1], ("expr", s[2], e2, s[1][4], at), at)
        if b[2] is None:
            return None
        return tail_tuple(ranger, b[2], e2, at)
    if H.tag(b) == "tup":
        return [ranger.rng(x, env, at) for x in b[1]]
    if H.tag(b) == "if":
        a = tail_tuple(ranger, b[2], env, at)
        c = tail_tuple(ranger, b[3], env, at) if b[3] is not None else None
        if a is None or c is None or len(a) != len(c):
            return None
        return [union(x, y) for x, y in zip(a, c)]
    return None


class Walker:
    """Walk a body in order; `on_node(node, env, loops, seq)` is called for every node."""

    def __init__(self, ranger, on_node):
        self.r = ranger
        self.on_node = on_node
        self.seq = 0
        self.last_assign = {}
        self.block_tail = {}
        self._keep = []
        self.counter_loops = set()  # ids of `while` loops with a recognised counter (they terminate)
        self.closure_hint = {}  # id(closure node) -> range of its first parameter (an adaptor of an integer range calls it with the elements)

    def bind_let(self, st, env):
        self.seq += 1
        pat = st[1]
        if H.tag(pat) == "bind":
            if st[2] is not None:
                env.set(pat[1], ("expr", st[2], env, pat[4], self.seq - 1), self.seq)
                init = H.strip(st[2])
                r0 = None
                if (H.tag(init) == "block" and init[1]) or H.tag(init) == "match":
                    r0 = self.block_tail.get(id(init))
                elif pat[1] in self.r.mutated:
                    # a local that is changed later: what its initialiser says holds until the first change (assigned() transfers or kills it)
                    r0 = self.r.rng(st[2], env, self.seq - 1)
                tr0 = ty_range(pat[4]) if pat[4] else None
                if r0 is not None and tr0 is not None and r0[0] <= tr0[1] and tr0[0] <= r0[1]:
                    # a value of the type lies within the type (an overflow on the way is a panic site of its own)
                    r0 = (max(r0[0], tr0[0]), min(r0[1], tr0[1]))
                if H.tag(init) == "call" and re.search(r"(Vec|VecDeque|String)(::<[^>]*>)?::(new|with_capacity)$", H.call_path(init) or ""):
                    self.seq += 1
                    env.set("#len:" + pat[1], ("len", 0), self.seq)
                if r0 is not None and (tr0 is None or (tr0[0] <= r0[0] and r0[1] <= tr0[1] and r0 != tr0)):
                    self.seq += 1
                    env.set("#ref:" + pat[1], ("ref", r0[0], r0[1]), self.seq)
            else:
                env.set(pat[1], ("type", pat[4]), self.seq)
        elif H.tag(pat) == "ptup":
            comps = tail_tuple(self.r, st[2], env, self.seq - 1) if st[2] is not None else None
            for k, q in enumerate(pat[1]):
                if H.tag(q) == "bind":
                    r = comps[k] if comps and k < len(comps) else None
                    tr = ty_range(q[4])
                    if r is not None and (tr is None or (tr[0] <= r[0] and r[1] <= tr[1])):
                        env.set(q[1], ("range", r[0], r[1]), self.seq)
                    else:
                        env.set(q[1], ("type", q[4]), self.seq)
        else:
            for q in H.walk(pat):
                if H.tag(q) == "bind":
                    env.set(q[1], ("type", q[4]), self.seq)

    def pat_range(self, pat):
        """(lo, hi) of the integers an integer literal / range pattern matches, else None"""
        def val(p):
            if p is None:
                return None
            if H.tag(p) == "lit" and p[1] == "int":
                return int(p[2])
            if H.tag(p) in ("ppath", "path"):
                m = re.search(r"<impl ([iu](?:8|16|32|64|128|size))>::(MAX|MIN)$", p[1])
                if m:
                    tr = ty_range(m.group(1))
                    return tr[1] if m.group(2) == "MAX" else tr[0]
                return self.r.consts(p[1])
            return None
        if H.tag(pat) == "lit" and pat[1] == "int":
            return (int(pat[2]), int(pat[2]))
        if H.tag(pat) == "prange" and pat[1] is not None and pat[2] is not None:
            lo, hi = val(pat[1]), val(pat[2])
            if lo is None or hi is None:
                return None
            if pat[3] != "Included":
                hi -= 1
            return (lo, hi) if lo <= hi else None
        return None

    def local_of(self, e):
        """the local an expression is a value-preserving view of (references, dereferences, widening casts), or None"""
        while True:
            e = H.strip(e)
            t = H.tag(e)
            if t in ("ref", "refmut"):
                e = e[1]
            elif t == "un" and e[2] == "Deref":
                e = e[4]
            elif t == "cast":
                a, b = ty_range(e[2]), ty_range(e[3])
                if a is None or b is None or not (b[0] <= a[0] and a[1] <= b[1]):
                    return None
                e = e[4]
            elif t == "local":
                return e[1]
            elif t == "call" and (H.call_path(e) or "") in ("std::convert::From::from", "std::convert::Into::into") and len(H.call_args(e)) == 1:
                ga = H.call_gargs(e)
                a, b = (ty_range(ga[1]), ty_range(ga[0])) if len(ga) >= 2 else (None, None)
                if a is None or b is None or not (b[0] <= a[0] and a[1] <= b[1]):
                    return None
                e = H.call_args(e)[0]
            elif t == "mcall" and e[2] == "into" and not H.mcall(e)["args"]:
                ga = H.mcall(e)["gargs"]
                a, b = (ty_range(ga[0]), ty_range(ga[1])) if len(ga) >= 2 else (None, None)
                if a is None or b is None or not (b[0] <= a[0] and a[1] <= b[1]):
                    return None
                e = H.mcall(e)["recv"]
            else:
                return None

    def scaled_local(self, e):
        """e = local (seen through value-preserving views) or local * K / K * local with a positive constant K -> (name, K), else None"""
        nm = self.local_of(e)
        if nm is not None:
            return nm, 1
        x = H.strip(e)
        if H.tag(x) == "bin" and x[2] == "Mul":
            for a, b in ((x[4], x[5]), (x[5], x[4])):
                nm = self.local_of(a)
                k = H.lit_int(H.strip(b))
                if k is None and H.tag(H.strip(b)) == "path":
                    k = self.r.consts(H.strip(b)[1])
                if nm is not None and k is not None and k > 0:
                    return nm, k
        return None

    def set_ref(self, env, name, lo, hi, kind="ref"):
        old = self.r.resolve_ref(env.get("#ref:" + name, self.seq))
        if old is not None and old[0] in ("ref", "inv"):
            if old[1] is not None:
                lo = old[1] if lo is None else max(lo, old[1])
            if old[2] is not None:
                hi = old[2] if hi is None else min(hi, old[2])
            if old[0] == "inv":
                kind = "inv"
        if lo is not None and hi is not None and lo > hi:
            return
        self.seq += 1
        env.set("#ref:" + name, (kind, lo, hi), self.seq)

    def refine(self, c, env, pos):
        """record what the condition c (taken as true when pos, false otherwise) says about the locals it compares"""
        c = H.strip(c)
        t = H.tag(c)
        if t == "un" and c[2] == "Not":
            return self.refine(c[4], env, not pos)
        if t == "bin" and c[2] in ("And", "Or"):
            if (c[2] == "And") == pos:
                self.refine(c[4], env, pos)
                self.refine(c[5], env, pos)
            return
        if t == "mcall" and c[2] == "is_empty" and not H.mcall(c)["args"] and pos is False:
            return  # a non-empty collection: no integer local to refine
        if t != "bin" or c[2] not in NEG:
            return
        op0 = c[2] if pos else NEG[c[2]]
        for lhs, rhs, op in ((c[4], c[5], op0), (c[5], c[4], FLIP[op0])):
            name = self.local_of(lhs)
            if name is None:
                sl = self.scaled_local(lhs)
                if sl is not None and op in ("Lt", "Le"):
                    # count * K <= bound  =>  count <= bound / K
                    prev = env.get("#ref:" + sl[0], self.seq)
                    self.seq += 1
                    env.set("#ref:" + sl[0], ("lazy", op + "/" + str(sl[1]), lhs, rhs, env, self.seq - 1, prev), self.seq)
                continue
            # recorded unevaluated: the ranges are computed only if a site asks about this local (Ranger.resolve_ref)
            prev = env.get("#ref:" + name, self.seq)
            self.seq += 1
            env.set("#ref:" + name, ("lazy", op, lhs, rhs, env, self.seq - 1, prev), self.seq)

    def assigned(self, n, env):
        """transfer of an assignment on the recorded facts about its target"""
        t = H.tag(n)
        tgt = H.local_name(H.strip(n[1] if t == "asg" else n[4]))
        if not tgt:
            return
        cur = self.r.resolve_ref(env.get("#ref:" + tgt, self.seq))
        if cur is not None and cur[0] == "inv":
            return  # a loop invariant already accounts for every update inside the loop
        new = None
        if t == "asg":
            r = self.r.rng(n[2], env, self.seq)
            if r is not None:
                new = ("ref", r[0], r[1])
        elif cur is not None and cur[0] == "ref" and n[2] in ("AddAssign", "SubAssign"):
            d = self.r.rng(n[5], env, self.seq)
            if d is not None:
                if n[2] == "AddAssign":
                    new = ("ref", None if cur[1] is None else cur[1] + d[0], None if cur[2] is None else cur[2] + d[1])
                else:
                    new = ("ref", None if cur[1] is None else cur[1] - d[1], None if cur[2] is None else cur[2] - d[0])
        self.seq += 1
        self.last_assign[tgt] = self.seq
        if new is not None:
            env.kill("#ref:" + tgt, self.seq)
            self.seq += 1
            env.set("#ref:" + tgt, new, self.seq)
        else:
            env.kill("#ref:" + tgt, self.seq)

    def loop_entry(self, n, env):
        """facts about locals that the loop body changes stop holding where the loop starts"""
        self.seq += 1
        for nm in mutated_names(n) | {H.local_name(H.strip(x[1])) for x in H.walk(n) if H.tag(x) == "refmut" and H.local_name(H.strip(x[1]))}:
            env.kill("#ref:" + nm, self.seq)
        for nm in grown_names(n):
            env.kill("#len:" + nm, self.seq)

    def updates_of(self, body, name):
        """-> list of constant ranges e of the updates `name += e` when these are the only changes of `name` in body, else None"""
        out = []
        for x in H.walk(body):
            t = H.tag(x)
            if t == "asg" and H.local_name(H.strip(x[1])) == name:
                return None
            if t == "refmut" and H.local_name(H.strip(x[1])) == name:
                return None
            if t == "asgop" and H.local_name(H.strip(x[4])) == name:
                if x[2] != "AddAssign":
                    return None
                e = H.strip(x[5])
                v = H.lit_int(e)
                if v is None and H.tag(e) == "path":
                    v = self.r.consts(e[1])
                if v is None or v < 0:
                    return None
                out.append(v)
        return out

    def pushes_of(self, body, name):
        """number of `name.push(..)` calls in a loop body when these are the only length-changing uses of `name` there and none of
        them stands in an inner loop or closure; else None"""
        def count(n, nested):
            t = H.tag(n)
            if t is None:
                tot = 0
                if isinstance(n, list):
                    for c in n:
                        if isinstance(c, list):
                            r = count(c, nested)
                            if r is None:
                                return None
                            tot += r
                return tot
            here = 0
            if t == "mcall" and n[2] in Ranger.GROWING + ("clear", "truncate", "pop", "remove", "drain", "retain", "dedup", "swap_remove", "split_off") \
                    and H.local_name(H.strip_refs(H.mcall(n)["recv"])) == name:
                if n[2] not in ("push", "push_back", "push_front") or nested:
                    return None
                here = 1
            if t == "refmut" and H.local_name(H.strip(n[1])) == name:
                return None
            if t in ("asg", "asgop") and H.local_name(H.strip(n[1] if t == "asg" else n[4])) == name:
                return None
            nested2 = nested or t in ("for", "while", "loop", "closure")
            for c in n[1:]:
                if isinstance(c, list):
                    r = count(c, nested2)
                    if r is None:
                        return None
                    here += r
            return here
        return count(body, False)

    def down_updates_of(self, body, name):
        """-> the constants c of the updates `name -= c` when these are the only changes of `name` in body (none in an inner loop), else None"""
        out = []

        def go(n, nested):
            t = H.tag(n)
            if t is None:
                return all(go(c, nested) for c in n if isinstance(c, list)) if isinstance(n, list) else True
            if t in ("asg", "refmut") and H.local_name(H.strip(n[1])) == name:
                return False
            if t == "asgop" and H.local_name(H.strip(n[4])) == name:
                v = H.lit_int(H.strip(n[5]))
                if n[2] != "SubAssign" or nested or v is None or v < 0:
                    return False
                out.append(v)
            nested2 = nested or t in ("for", "while", "loop", "closure")
            return all(go(c, nested2) for c in n[1:] if isinstance(c, list))
        return out if go(body, False) and out else None

    def update_nodes(self, body, name):
        """the right-hand sides e of the updates `name += e` when these are the only changes of `name` in body and none of them stands in
        an inner loop or closure; else None"""
        out = []

        def go(n, nested):
            t = H.tag(n)
            if t is None:
                if isinstance(n, list):
                    for c in n:
                        if isinstance(c, list) and not go(c, nested):
                            return False
                return True
            if t == "asg" and H.local_name(H.strip(n[1])) == name:
                return False
            if t == "refmut" and H.local_name(H.strip(n[1])) == name:
                return False
            if t == "asgop" and H.local_name(H.strip(n[4])) == name:
                if n[2] != "AddAssign" or nested:
                    return False
                out.append(n[5])
            nested2 = nested or t in ("for", "while", "loop", "closure")
            for c in n[1:]:
                if isinstance(c, list) and not go(c, nested2):
                    return False
            return True
        return out if go(body, False) and out else None

    def init_range(self, name, env):
        """range of a local where a loop starts (its initialiser or a recorded fact), ignoring later mutation"""
        ref = self.r.resolve_ref(env.get("#ref:" + name, self.seq))
        b = env.get(name, self.seq)
        r = None
        if name in self.last_assign:
            # changed since its `let`: only a fact recorded at (or after) the last change still describes it
            if ref is None or ref[0] not in ("ref", "inv"):
                return None
            tr = ty_range(b[3]) if b is not None and b[0] == "expr" and b[3] else (ty_range(b[1]) if b is not None and b[0] in ("type", "param") else None)
            return intersect(tr, ref)
        if b is not None and b[0] == "expr":
            r = self.r.rng(b[1], b[2], b[4])
            tr = ty_range(b[3]) if b[3] else None
            if r is None:
                r = tr
        elif b is not None and b[0] == "range":
            r = (b[1], b[2])
        if ref is not None and ref[0] in ("ref", "inv"):
            r = intersect(r, ref)
        return r

    def note_guard(self, stmt_expr, env):
        """`if X > C { return Err(..) }` establishes an allocation guard on X and on the locals X was computed from; so does
        `guard_fn(X, C)?` when guard_fn is a function that returns an error exactly when its argument exceeds a constant bound"""
        g = H.strip(stmt_expr)
        gc = g
        while H.tag(gc) in ("try", "await"):
            gc = H.strip(gc[1])
        if H.tag(gc) == "call" and H.tag(g) == "try" and self.r.guard_fn is not None:
            idx = self.r.guard_fn(H.call_path(gc) or "")
            args = H.call_args(gc)
            if idx is not None and idx[0] < len(args) and idx[1] < len(args):
                bound = H.strip(args[idx[1]])
                kf = 1
                if len(idx) == 3:
                    kr_ = self.r.rng(args[idx[2]], env, self.seq) if idx[2] < len(args) else None
                    kf = kr_[0] if kr_ is not None and kr_[0] == kr_[1] and kr_[0] >= 1 else None
                if kf is not None and (H.lit_int(bound) is not None or H.tag(bound) == "path"):
                    sl = self.scaled_local(args[idx[0]])
                    if sl is not None:
                        sl = (sl[0], sl[1] * kf)
                    if sl is not None:
                        prev = env.get("#ref:" + sl[0], self.seq)
                        self.seq += 1
                        env.set("#ref:" + sl[0], ("lazy", "Le/" + str(sl[1]), args[idx[0]], args[idx[1]], env, self.seq - 1, prev), self.seq)
                    self.seq += 1
                    for y in H.walk(args[idx[0]]):
                        if H.tag(y) != "local":
                            continue
                        v = y[1]
                        env.set("#guard:" + v, ("guard",), self.seq)
                        b = env.get(v, self.seq)
                        if b and b[0] == "expr":
                            for x in H.walk(b[1]):
                                if H.tag(x) == "local":
                                    env.set("#guard:" + x[1], ("guard",), self.seq)
            return
        if H.tag(g) == "if" and g[3] is None and any(H.tag(x) == "ret" for x in H.walk(g[2])):
            c = H.strip(g[1])
            if H.tag(c) == "bin" and c[2] in ("Gt", "Ge") and (H.lit_int(c[5]) is not None or H.tag(H.strip(c[5])) == "path"):
                self.seq += 1
                for y in H.walk(c[4]):
                    if H.tag(y) != "local":
                        continue
                    v = y[1]
                    env.set("#guard:" + v, ("guard",), self.seq)
                    b = env.get(v, self.seq)
                    if b and b[0] == "expr":
                        for x in H.walk(b[1]):
                            if H.tag(x) == "local":
                                env.set("#guard:" + x[1], ("guard",), self.seq)

    def walk(self, n, env, loops=()):
        t = H.tag(n)
        if t is None:
            if isinstance(n, list):
                for c in n:
                    if isinstance(c, list):
                        self.walk(c, env, loops)
            return
        self.seq += 1
        if self.on_node:
            self.on_node(n, env, loops, self.seq)
        if t == "mcall" and n[2] in ("filter", "map", "for_each", "any", "all", "position", "find", "take_while", "skip_while", "filter_map", "try_for_each"):
            mc_ = H.mcall(n)
            base_ = H.strip(mc_["recv"])
            while H.is_mcall(base_) and H.mcall(base_)["name"] in ("filter", "rev", "skip", "take", "step_by", "skip_while", "take_while", "into_iter", "by_ref"):
                base_ = H.strip(H.mcall(base_)["recv"])
            if H.is_mcall(base_) and H.mcall(base_)["name"] == "enumerate" and mc_["args"]:
                # `.enumerate()` over something of bounded length: the first tuple component is an index below that length
                lb_ = self.r.len_bound(H.mcall(base_)["recv"], env, self.seq)
                cl_ = H.strip(mc_["args"][0])
                if lb_ is not None and lb_ >= 1 and H.tag(cl_) == "closure":
                    self.closure_hint[id(cl_)] = ("tuple0", 0, lb_ - 1)
                    self._keep.append(cl_)
            if H.tag(base_) == "struct" and base_[1].split("<")[0].endswith("::Range") and mc_["args"]:
                f_ = dict((a, b) for a, b in base_[2])
                lo_, hi_ = self.r.rng(f_.get("start"), env, self.seq), self.r.rng(f_.get("end"), env, self.seq)
                cl_ = H.strip(mc_["args"][0])
                if lo_ and hi_ and H.tag(cl_) == "closure":
                    self.closure_hint[id(cl_)] = (lo_[0], max(hi_[1] - 1, lo_[0]))
                    self._keep.append(cl_)
        if t == "block":
            e2 = env.child()
            for s in n[1]:
                if s[0] == "let":
                    if s[2] is not None:
                        self.walk(s[2], e2, loops)
                    if s[3] is not None:
                        self.walk(s[3], e2, loops)
                    self.bind_let(s, e2)
                elif s[0] in ("semi", "expr"):
                    self.walk(s[1], e2, loops)
                    self.note_guard(s[1], e2)
                    g = H.strip(s[1])
                    if H.tag(g) == "if" and H.tag(H.strip(g[1])) != "letexpr":
                        # `if c { return .. }` (or break / continue / panic): the rest of the block runs under !c; with a diverging else, under c
                        if diverges(g[2]) and (g[3] is None or not diverges(g[3])):
                            self.refine(g[1], e2, False)
                        elif g[3] is not None and diverges(g[3]) and not diverges(g[2]):
                            self.refine(g[1], e2, True)
            if n[2] is not None:
                self.walk(n[2], e2, loops)
                if n[1]:
                    # the value of a block with statements: its tail where the block ends (facts about locals changed inside are the ones
                    # that survived every change)
                    self.block_tail[id(n)] = self.r.rng(n[2], e2, self.seq)
                    self._keep.append(n)
            return
        if t == "for":
            pat, it, body = n[1], n[2], n[3]
            self.walk(it, env, loops)
            e2 = env.child()
            ie = H.strip(it)
            bound = None
            enum_bound = None
            base_ = ie
            if H.tag(base_) == "local" and base_[1] not in self.r.mutated:
                b_ = env.get(base_[1], self.seq)
                if b_ is not None and b_[0] == "expr":
                    base_ = H.strip(b_[1])  # `let it = (0..n).filter(..); for i in it`
            while H.is_mcall(base_) and H.mcall(base_)["name"] in ("filter", "rev", "skip", "take", "step_by", "skip_while", "take_while", "into_iter", "by_ref"):
                base_ = H.strip(H.mcall(base_)["recv"])  # the elements that come through are elements of the range
            if H.tag(base_) == "struct" and base_[1].split("<")[0].endswith("::Range"):
                f = dict((a, b) for a, b in base_[2])
                lo = self.r.rng(f.get("start"), env, self.seq)
                hi = self.r.rng(f.get("end"), env, self.seq)
                if lo and hi:
                    bound = (lo[0], max(hi[1] - 1, lo[0]))
            if H.is_mcall(ie) and H.mcall(ie)["name"] == "enumerate":
                inner = H.strip(H.mcall(ie)["recv"])
                if H.is_mcall(inner) and H.mcall(inner)["name"] in ("iter", "iter_mut"):
                    m = re.search(r"; (\d+)\]$", (H.mcall(inner).get("recv_ty_unadj") or "").replace("&mut ", "").replace("&", ""))
                    if m:
                        enum_bound = (0, int(m.group(1)) - 1)
                if enum_bound is None:
                    # the index of `enumerate()` over anything whose length is bounded
                    lb = self.r.len_bound(inner, env, self.seq)
                    if lb is not None and lb >= 1:
                        enum_bound = (0, lb - 1)
            iters = self.r.len_bound(it, env, self.seq)
            comp_bounds = {0: enum_bound} if enum_bound else {}
            if H.is_mcall(ie) and H.mcall(ie)["name"] == "zip" and len(H.mcall(ie)["args"]) == 1 and iters is not None and iters >= 1:
                # `(start..).zip(v)` / `v.zip(a..b)`: a component that comes from an integer range counts up from its start, once per
                # iteration - and there are at most `iters` iterations (the shorter side ends the zip)
                for k_, side in enumerate((H.mcall(ie)["recv"], H.mcall(ie)["args"][0])):
                    sd = H.strip(side)
                    if H.tag(sd) == "struct" and sd[1].split("<")[0].endswith(("::RangeFrom", "::Range")):
                        f_ = dict((a, b) for a, b in sd[2])
                        st_ = self.r.rng(f_.get("start"), env, self.seq)
                        if st_ is not None:
                            hi_ = st_[1] + iters - 1
                            if "end" in f_:
                                en_ = self.r.rng(f_["end"], env, self.seq)
                                if en_ is not None:
                                    hi_ = min(hi_, max(en_[1] - 1, st_[0]))
                            comp_bounds[k_] = (st_[0], hi_)
            inits = {}
            for nm in sorted(mutated_names(body)):
                ups = self.updates_of(body, nm)
                ir = self.init_range(nm, env) if ups else None
                if iters is not None and ups and ir is not None:
                    inits[nm] = (ir[0], ir[1] + iters * sum(ups))
            lens = {}
            for nm in sorted(grown_names(body)):
                cur = env.get("#len:" + nm, self.seq)
                k = self.pushes_of(body, nm)
                if iters is not None and k is not None and cur is not None and cur[0] == "len":
                    lens[nm] = cur[1] + iters * k
            self.loop_entry(n, env)
            for nm, hi_ in lens.items():
                # the collection grows only by `push` (k per iteration, none in an inner loop or closure) and the loop runs at most
                # `iters` times: its length stays within len + iters * k, inside the loop and after it
                self.seq += 1
                env.set("#len:" + nm, ("len", hi_), self.seq)
            for nm, (lo_, hi_) in inits.items():
                # x changes only by `x += c` (c >= 0 constant) and the loop runs at most `iters` times: x stays within init + iters * c,
                # inside the loop and after it
                self.seq += 1
                env.set("#ref:" + nm, ("ref", lo_, hi_), self.seq)
                e2.set("#ref:" + nm, ("inv", lo_, hi_), self.seq)
            p = pat
            if H.tag(p) == "ps" and p[2]:
                p = p[2][0][1]
            elif H.tag(p) == "ts" and p[2]:
                p = p[2][0]
            self.seq += 1
            if H.tag(p) == "bind":
                e2.set(p[1], ("range", bound[0], bound[1]) if bound else ("type", p[4]), self.seq)
            elif H.tag(p) == "ptup":
                for k, q in enumerate(p[1]):
                    qq = q
                    while H.tag(qq) in ("pref", "pderef"):
                        qq = qq[1]
                    if H.tag(qq) == "bind":
                        if comp_bounds.get(k):
                            e2.set(qq[1], ("range", comp_bounds[k][0], comp_bounds[k][1]), self.seq)
                        else:
                            e2.set(qq[1], ("type", qq[4]), self.seq)
            self.walk(body, e2, loops + (n,))
            return
        if t in ("while", "loop"):
            counters = {}
            trips = None
            if t == "while":
                # counter induction: `while x != K` / `while x < K` / `while x <= K` where the body changes x only by `x += c` (c >= 1) and K is
                # a constant or (for < and <=) an expression the loop does not change, with a known upper bound
                conj = [H.strip(n[1])]
                while any(H.tag(x) == "bin" and x[2] == "And" for x in conj):
                    conj = [H.strip(y) for x in conj for y in ((x[4], x[5]) if H.tag(x) == "bin" and x[2] == "And" else (x,))]
                changed = mutated_names(n[2]) | grown_names(n[2])
                for c in conj:
                    if not (H.tag(c) == "bin" and c[2] in ("Ne", "Lt", "Le")):
                        continue
                    nm = self.local_of(c[4])
                    kr = self.r.rng(c[5], env, self.seq)
                    ups = self.updates_of(n[2], nm) if nm else None
                    ir = self.init_range(nm, env) if ups else None
                    invariant_bound = not any(H.tag(y) == "local" and y[1] in changed for y in H.walk(c[5])) and not any(H.tag(y) in ("call", "mcall") for y in H.walk(c[5]))
                    if ups and ir is not None and kr is not None and len(ups) == 1 and ups[0] >= 1 and (kr[0] == kr[1] or (c[2] != "Ne" and invariant_bound)):
                        K = kr[1] + (1 if c[2] == "Le" else 0)
                        if (ir[1] <= K or c[2] != "Ne") and (c[2] != "Ne" or ups[0] == 1):
                            counters[nm] = (ir[0], max(K - 1, ir[0]), max(K - 1 + ups[0], ir[1]))
                            t_ = max(0, -(-(K - ir[0]) // ups[0]))
                            trips = t_ if trips is None else min(trips, t_)
                            self.counter_loops.add(id(n))
                            self._keep.append(n)
            downs = {}
            if t == "while":
                # a counter that only goes down: `while x != 0` / `while x > 0` where the body changes x only by `x -= c` (c >= 1; c == 1 for !=):
                # x stays within [0, its value where the loop starts] and the loop runs at most that value / c times
                for c in conj:
                    if not (H.tag(c) == "bin" and c[2] in ("Ne", "Gt") and H.lit_int(H.strip(c[5])) == 0):
                        continue
                    nm = self.local_of(c[4])
                    dn = self.down_updates_of(n[2], nm) if nm else None
                    ir = self.init_range(nm, env) if dn else None
                    if dn and ir is not None and len(dn) == 1 and dn[0] >= 1 and ir[0] >= 0 and (c[2] != "Ne" or dn[0] == 1):
                        downs[nm] = (0, ir[1])
                        t_ = -(-ir[1] // dn[0])
                        trips = t_ if trips is None else min(trips, t_)
                        self.counter_loops.add(id(n))
                        self._keep.append(n)
            accs = {}
            if trips is not None:
                # other locals the body only adds non-negative amounts to: bounded by the number of iterations
                for nm in sorted(mutated_names(n[2]) - set(counters) - set(downs)):
                    ir = self.init_range(nm, env)
                    if ir is not None and self.update_nodes(n[2], nm) is not None:
                        accs[nm] = ir
            self.loop_entry(n, env)
            e2 = env.child()
            for nm, (lo_, hi_) in downs.items():
                self.seq += 1
                e2.set("#ref:" + nm, ("ref", lo_, hi_), self.seq)
            if t == "while":
                self.walk(n[1], env, loops + (n,))
                self.refine(n[1], e2, True)
            for nm, (lo_, hi_in, hi_after) in counters.items():
                self.seq += 1
                e2.set("#ref:" + nm, ("ref", lo_, hi_in), self.seq)
            acc_after = {}
            for nm, ir in accs.items():
                tot = 0
                okk = True
                for e_ in self.update_nodes(n[2], nm):
                    r_ = self.r.rng(e_, e2, self.seq)
                    if r_ is None or r_[0] < 0:
                        okk = False
                        break
                    tot += r_[1]
                if okk:
                    acc_after[nm] = (ir[0], ir[1] + trips * tot)
                    self.seq += 1
                    e2.set("#ref:" + nm, ("inv", ir[0], ir[1] + trips * tot), self.seq)
            self.walk(n[2], e2, loops + (n,))
            for nm, (lo_, hi_in, hi_after) in counters.items():
                self.seq += 1
                env.kill("#ref:" + nm, self.seq)
                self.seq += 1
                env.set("#ref:" + nm, ("ref", lo_, hi_after), self.seq)
            for nm, (lo_, hi_) in list(acc_after.items()) + list(downs.items()):
                self.seq += 1
                env.kill("#ref:" + nm, self.seq)
                self.seq += 1
                env.set("#ref:" + nm, ("ref", lo_, hi_), self.seq)
            return
        if t == "closure":
            # a closure may run any number of times, later: what it changes is unknown from here on, inside it and after it
            self.loop_entry(n, env)
            e2 = env.child()
            self.seq += 1
            hint = self.closure_hint.get(id(n))
            for k_, p in enumerate(n[2]):
                pp_ = p
                while H.tag(pp_) in ("pref", "pderef"):
                    pp_ = pp_[1]
                if H.tag(pp_) == "bind":
                    if k_ == 0 and hint is not None and hint[0] != "tuple0":
                        e2.set(pp_[1], ("range", hint[0], hint[1]), self.seq)  # called with the elements of an integer range
                    else:
                        e2.set(pp_[1], ("type", pp_[4]), self.seq)
                elif H.tag(pp_) == "ptup":
                    for j_, q_ in enumerate(pp_[1]):
                        while H.tag(q_) in ("pref", "pderef"):
                            q_ = q_[1]
                        if H.tag(q_) == "bind":
                            if k_ == 0 and j_ == 0 and hint is not None and hint[0] == "tuple0":
                                e2.set(q_[1], ("range", hint[1], hint[2]), self.seq)
                            else:
                                e2.set(q_[1], ("type", q_[4]), self.seq)
            self.walk(n[3], e2, loops)
            self.loop_entry(n, env)
            return
        if t == "match":
            self.walk(n[1], env, loops)
            sr = self.r.rng(n[1], env, self.seq)
            seen_lits = []
            sloc = self.local_of(n[1])  # the local the scrutinee is a value-preserving view of
            env = env.child()  # what the arms passed so far have excluded accumulates here
            # `match f(x) { Some(..) => .., None => unreachable!() }` with f a crate function of one small-range integer: f is evaluated for
            # every value of x; an Option / Result variant it never returns makes the arm of that variant dead
            never = set()
            sc_ = H.strip(n[1])
            if H.tag(sc_) == "call" and self.r.call_concrete is not None and len(H.call_args(sc_)) == 1 and (H.call_path(sc_) or "").startswith(("crate::", "<crate::")):
                ar_ = self.r.rng(H.call_args(sc_)[0], env, self.seq)
                if ar_ is not None and 0 <= ar_[1] - ar_[0] <= 512:
                    heads = set()
                    for v_ in range(ar_[0], ar_[1] + 1):
                        res_ = self.r.call_concrete(H.call_path(sc_), [v_])
                        heads.add(res_ if isinstance(res_, str) else (res_[0] if isinstance(res_, tuple) and res_ and isinstance(res_[0], str) else "?"))
                    if heads and heads <= {"Some", "None"}:
                        never = {"Some", "None"} - heads
                    elif heads and heads <= {"Ok", "Err"}:
                        never = {"Ok", "Err"} - heads
                    never_why = f"{H.call_path(sc_).split('::')[-1]}(x) returns only {sorted(heads)} for x in {ar_}"
            val, val_ok = None, True
            for pat, guard, body in n[3]:
                e2 = env.child()
                self.seq += 1
                same = H.tag(pat) == "bind" and pat[5] is None and sloc and sloc not in self.r.mutated and pat[1] == sloc
                for q in H.walk(pat):
                    if H.tag(q) == "bind" and not same:
                        e2.set(q[1], ("type", q[4]), self.seq)
                if H.tag(pat) == "bind" and pat[5] is None and sloc and sloc not in self.r.mutated and pat[1] != sloc:
                    # `x => ..` / `x if g => ..`: x is the scrutinee
                    e2.set(pat[1], ("expr", ["local", sloc], env, pat[4], self.seq), self.seq)
                pr = self.pat_range(pat)
                if sr is not None and pr is not None and (pr[1] < sr[0] or pr[0] > sr[1]):
                    # no value of the scrutinee matches this arm: what stands in it is never executed
                    e2.set("#dead", ("dead-arm", f"the scrutinee {H.short(n[1], maxlen=60)} is within {sr}, the arm matches {pr}"), self.seq)
                ph_ = (pat[1] if H.tag(pat) in ("ts", "ps", "ppath") and isinstance(pat[1], str) else "").split("::")[-1]
                if never and ph_ in never:
                    e2.set("#dead", ("dead-arm", never_why), self.seq)
                if H.tag(pat) == "lit" and pat[1] == "int" and guard is None:
                    seen_lits.append(int(pat[2]))
                elif H.tag(pat) == "bind" and pat[5] is None and sr is not None and not same and not (sloc and sloc not in self.r.mutated):
                    # `v => ..` after literal arms: the scrutinee's range without the literals already matched at its ends
                    lo_, hi_ = sr
                    while lo_ in seen_lits:
                        lo_ += 1
                    while hi_ in seen_lits:
                        hi_ -= 1
                    if lo_ <= hi_:
                        e2.set(pat[1], ("range", lo_, hi_), self.seq)
                if guard is not None:
                    self.walk(guard, e2, loops)
                    self.refine(guard, e2, True)
                self.walk(body, e2, loops)
                if not diverges(body):
                    r_ = self.r.rng(body, e2, self.seq)
                    if r_ is None:
                        val_ok = False
                    else:
                        val = r_ if val is None else union(val, r_)
                if H.tag(pat) == "bind" and pat[5] is None and guard is not None and sloc and sloc not in self.r.mutated:
                    # `x if g => ..`: the later arms are reached only when g is false (about the scrutinee)
                    self.refine(subst_local(guard, pat[1], sloc) if pat[1] != sloc else guard, env, False)
                elif guard is None and sloc and sloc not in self.r.mutated:
                    # a literal / range pattern at an end of the scrutinee's range: the later arms see the rest
                    pr_ = self.pat_range(pat)
                    cur = self.r.rng(["local", sloc], env, self.seq)
                    if pr_ is not None and cur is not None and pr_[0] <= cur[0] <= pr_[1] < cur[1]:
                        self.seq += 1
                        env.set("#ref:" + sloc, ("ref", pr_[1] + 1, cur[1]), self.seq)
                    elif pr_ is not None and cur is not None and cur[0] < pr_[0] <= cur[1] <= pr_[1]:
                        self.seq += 1
                        env.set("#ref:" + sloc, ("ref", cur[0], pr_[0] - 1), self.seq)
            if val_ok and val is not None:
                self.block_tail[id(n)] = val
                self._keep.append(n)
            return
        if t == "if":
            c = H.strip(n[1])
            e2 = env.child()
            if H.tag(c) == "letexpr":
                self.walk(c[2], env, loops)
                self.seq += 1
                for q in H.walk(c[1]):
                    if H.tag(q) == "bind":
                        e2.set(q[1], ("type", q[4]), self.seq)
            else:
                self.walk(n[1], env, loops)
                self.refine(c, e2, True)
            self.walk(n[2], e2, loops)
            if n[3] is not None:
                e3 = env.child()
                if H.tag(c) != "letexpr":
                    self.refine(c, e3, False)
                self.walk(n[3], e3, loops)
            return
        if t == "struct":
            for f in n[2]:
                self.walk(f[1], env, loops)
            if n[3] is not None:
                self.walk(n[3], env, loops)
            return
        if t == "ps":
            return
        for c in n[1:]:
            if isinstance(c, list):
                self.walk(c, env, loops)
        if t in ("asg", "asgop"):
            self.assigned(n, env)
        elif t == "mcall" and n[2] in Ranger.GROWING + ("clear", "truncate", "pop", "remove", "drain", "retain", "dedup", "swap_remove", "split_off"):
            nm = H.local_name(H.strip_refs(H.mcall(n)["recv"]))
            if nm and not loops:
                # outside loops: one push is one more element; anything else that changes the length ends the fact
                cur = env.get("#len:" + nm, self.seq)
                self.seq += 1
                env.kill("#len:" + nm, self.seq)
                if n[2] in ("push", "push_back", "push_front") and cur is not None and cur[0] == "len":
                    self.seq += 1
                    env.set("#len:" + nm, ("len", cur[1] + 1), self.seq)
        elif t == "refmut":
            nm = H.local_name(H.strip(n[1]))
            if nm:
                self.seq += 1
                self.last_assign[nm] = self.seq
                env.kill("#ref:" + nm, self.seq)
                env.kill("#len:" + nm, self.seq)


class NotPure(Exception):
    pass


class PureEval:
    """Evaluation of pure integer / boolean expressions for concrete inputs: literals, evaluated constants, locals (looked through their `let`
    initialisers), casts, arithmetic with Rust's overflow rules (a result outside the type of an Add / Sub / Mul / Shl raises OverflowError),
    comparisons, `if`, blocks with `let`s, the saturating / wrapping / min / max integer methods, widening `from` / `into`, and calls of small
    pure crate functions (inlined).  Used to decide a site for every value of a small input domain."""

    INT_METHODS = ("saturating_sub", "saturating_add", "wrapping_sub", "wrapping_add", "wrapping_mul", "min", "max", "abs", "pow", "count_ones", "trailing_zeros", "leading_zeros")

    def __init__(self, ranger):
        self.r = ranger

    # -- which inputs does the expression depend on ---------------------------------------------------------------------------
    def free_inputs(self, n, env, at):
        free = {}
        self._collect(n, env, at, free, set(), 0)
        return free

    def _collect(self, e, env, at, free, bound, depth):
        e = H.strip(e)
        t = H.tag(e)
        if depth > 14:
            raise NotPure()
        if t == "lit":
            if e[1] not in ("int", "bool"):
                raise NotPure()
            return
        if t == "path":
            if self.r.consts(e[1]) is None:
                raise NotPure()
            return
        if t == "local":
            if e[1] in bound:
                return
            b = env.get(e[1], at) if env is not None else None
            if b is None:
                raise NotPure()
            if b[0] == "expr" and e[1] not in self.r.mutated:
                return self._collect(b[1], b[2], b[4], free, set(), depth + 1)
            r = self.r.rng(e, env, at)
            if r is None or r[1] - r[0] > 70000:
                raise NotPure()
            free[e[1]] = r
            return
        if t in ("ref", "refmut"):
            return self._collect(e[1], env, at, free, bound, depth)
        if t == "un" and e[2] in ("Deref", "Not", "Neg"):
            return self._collect(e[4], env, at, free, bound, depth)
        if t == "cast" and e[3] in INT_TYPES and (e[2] in INT_TYPES or e[2] == "bool"):
            return self._collect(e[4], env, at, free, bound, depth)
        if t == "bin":
            self._collect(e[4], env, at, free, bound, depth)
            self._collect(e[5], env, at, free, bound, depth)
            return
        if t == "if" and e[3] is not None and H.tag(H.strip(e[1])) != "letexpr":
            for x in (e[1], e[2], e[3]):
                self._collect(x, env, at, free, bound, depth)
            return
        if t == "block":
            b2 = set(bound)
            for st in e[1]:
                if st[0] == "let" and H.tag(st[1]) == "bind" and st[2] is not None:
                    self._collect(st[2], env, at, free, b2, depth)
                    b2.add(st[1][1])
                elif st[0] == "item":
                    continue
                else:
                    raise NotPure()
            if e[2] is None:
                raise NotPure()
            return self._collect(e[2], env, at, free, b2, depth)
        if t == "mcall":
            mc = H.mcall(e)
            if mc["name"] in self.INT_METHODS and (mc["path"] or "").startswith("std::"):
                self._collect(mc["recv"], env, at, free, bound, depth)
                for a in mc["args"]:
                    self._collect(a, env, at, free, bound, depth)
                return
            if mc["name"] in ("into", "clone") and not mc["args"]:
                return self._collect(mc["recv"], env, at, free, bound, depth)
            fn = self._pure_fn(mc["path"])
            if fn is not None:
                for a in [mc["recv"]] + mc["args"]:
                    self._collect(a, env, at, free, bound, depth)
                return self._collect(fn["hir"], None, None, free, {p[1] for p in fn["params"]}, depth + 1)
            raise NotPure()
        if t == "call":
            p = H.call_path(e) or ""
            args = H.call_args(e)
            if p in ("std::convert::From::from", "std::convert::Into::into") and len(args) == 1:
                return self._collect(args[0], env, at, free, bound, depth)
            fn = self._pure_fn(p)
            if fn is not None and len(fn["params"]) == len(args):
                for a in args:
                    self._collect(a, env, at, free, bound, depth)
                return self._collect(fn["hir"], None, None, free, {p_[1] for p_ in fn["params"]}, depth + 1)
            raise NotPure()
        raise NotPure()

    def _pure_fn(self, path):
        if self.r.fn_of is None or not path or not path.startswith(("crate::", "<crate::")):
            return None
        fn = self.r.fn_of(path)
        if fn is None or fn.get("hir") is None or any(H.tag(p) != "bind" for p in fn["params"]):
            return None
        if sum(1 for _ in H.walk(fn["hir"])) > 200:
            return None
        return fn

    # -- value for concrete inputs ------------------------------------------------------------------------------------------------------
    def value(self, e, env, at, x, scope=None):
        e = H.strip(e)
        t = H.tag(e)
        sc = scope if scope is not None else {}
        if t == "lit":
            return int(e[2]) if e[1] == "int" else int(e[2] == "true")
        if t == "path":
            return self.r.consts(e[1])
        if t == "local":
            if e[1] in sc:
                return sc[e[1]]
            if e[1] in x:
                return x[e[1]]
            b = env.get(e[1], at) if env is not None else None
            if b is not None and b[0] == "expr" and e[1] not in self.r.mutated:
                return self.value(b[1], b[2], b[4], x, {})
            raise NotPure()
        if t in ("ref", "refmut"):
            return self.value(e[1], env, at, x, sc)
        if t == "un":
            v = self.value(e[4], env, at, x, sc)
            if e[2] == "Deref":
                return v
            if e[2] == "Not":
                if e[3] == "bool":
                    return int(not v)
                bits = INT_TYPES[e[3]][0]
                return ~v & ((1 << bits) - 1) if not INT_TYPES[e[3]][1] else ~v
            return -v
        if t == "cast":
            v = self.value(e[4], env, at, x, sc)
            bits, signed = INT_TYPES[e[3]]
            v &= (1 << bits) - 1
            return v - (1 << bits) if signed and v >= 1 << (bits - 1) else v
        if t == "if":
            c = self.value(e[1], env, at, x, sc)
            return self.value(e[2] if c else e[3], env, at, x, sc)
        if t == "block":
            s2 = dict(sc)
            for st in e[1]:
                if st[0] == "let":
                    s2[st[1][1]] = self.value(st[2], env, at, x, s2)
            return self.value(e[2], env, at, x, s2)
        if t == "mcall":
            mc = H.mcall(e)
            nm = mc["name"]
            if nm in self.INT_METHODS and (mc["path"] or "").startswith("std::"):
                ty = re.search(r"<impl (\w+)>", mc["path"])
                ty = ty.group(1) if ty else None
                lo, hi = ty_range(ty) if ty in INT_TYPES else (None, None)
                a = self.value(mc["recv"], env, at, x, sc)
                bs = [self.value(q, env, at, x, sc) for q in mc["args"]]
                if nm == "saturating_sub":
                    return max(a - bs[0], lo)
                if nm == "saturating_add":
                    return min(a + bs[0], hi)
                if nm in ("wrapping_sub", "wrapping_add", "wrapping_mul"):
                    v = {"wrapping_sub": a - bs[0], "wrapping_add": a + bs[0], "wrapping_mul": a * bs[0]}[nm] & ((1 << INT_TYPES[ty][0]) - 1)
                    return v - (1 << INT_TYPES[ty][0]) if INT_TYPES[ty][1] and v >= 1 << (INT_TYPES[ty][0] - 1) else v
                if nm == "min":
                    return min(a, bs[0])
                if nm == "max":
                    return max(a, bs[0])
                if nm == "abs":
                    return abs(a)
                if nm == "count_ones":
                    return bin(a & ((1 << INT_TYPES[ty][0]) - 1)).count("1")
                if nm == "pow":
                    v = a ** bs[0]
                    if not (lo <= v <= hi):
                        raise OverflowError(f"`{H.short(e, maxlen=60)}` = {v}")
                    return v
                raise NotPure()
            if nm in ("into", "clone") and not mc["args"]:
                return self.value(mc["recv"], env, at, x, sc)
            fn = self._pure_fn(mc["path"])
            if fn is not None:
                vals = [self.value(q, env, at, x, sc) for q in [mc["recv"]] + mc["args"]]
                return self.value(fn["hir"], None, None, {}, {p[1]: v for p, v in zip(fn["params"], vals)})
            raise NotPure()
        if t == "call":
            p = H.call_path(e) or ""
            args = H.call_args(e)
            if p in ("std::convert::From::from", "std::convert::Into::into"):
                return self.value(args[0], env, at, x, sc)
            fn = self._pure_fn(p)
            if fn is None:
                raise NotPure()
            vals = [self.value(q, env, at, x, sc) for q in args]
            return self.value(fn["hir"], None, None, {}, {p_[1]: v for p_, v in zip(fn["params"], vals)})
        if t != "bin":
            raise NotPure()
        op = e[2]
        a = self.value(e[4], env, at, x, sc)
        if op == "And":
            return int(bool(a) and bool(self.value(e[5], env, at, x, sc)))
        if op == "Or":
            return int(bool(a) or bool(self.value(e[5], env, at, x, sc)))
        b = self.value(e[5], env, at, x, sc)
        tr = ty_range(e[3]) if e[3] in INT_TYPES else None
        if op in ("Div", "Rem") and b == 0:
            raise ZeroDivisionError()
        if op in ("Shl", "Shr") and e[3] in INT_TYPES and not (0 <= b < INT_TYPES[e[3]][0]):
            raise OverflowError(f"shift by {b}")
        r = {"Add": lambda: a + b, "Sub": lambda: a - b, "Mul": lambda: a * b, "Div": lambda: int(a / b) if (a < 0) != (b < 0) else a // b,
             "Rem": lambda: a - b * (int(a / b) if (a < 0) != (b < 0) else a // b), "Shl": lambda: a << b, "Shr": lambda: a >> b, "BitAnd": lambda: a & b,
             "BitOr": lambda: a | b, "BitXor": lambda: a ^ b, "Lt": lambda: int(a < b), "Le": lambda: int(a <= b), "Gt": lambda: int(a > b), "Ge": lambda: int(a >= b),
             "Eq": lambda: int(a == b), "Ne": lambda: int(a != b)}[op]()
        if op in ("Add", "Sub", "Mul", "Shl") and tr is not None and not (tr[0] <= r <= tr[1]):
            raise OverflowError(f"`{H.short(e, maxlen=70)}` = {r}")
        return r
