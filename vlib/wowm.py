"""E1 wowmref: independent reading of the wowm language (written from wowm_language/src/spec/*.md and
versioning-with-tags.md).  Tokenizer + recursive-descent parser + version algebra + type lookup +
reference layouts + size intervals.  Nothing here uses the generator's code."""
import os
import re

from .common import REPO

WOWM_DIR = os.path.join(REPO, "wow_message_parser", "wowm")


class WowmError(Exception):
    pass


# ----------------------------------------------------------------------------------------------
# tokenizer
# ----------------------------------------------------------------------------------------------
_WORD = re.compile(r"[A-Za-z0-9_.]+")
_NUM = re.compile(r"^(0x[0-9A-Fa-f]+|0b[01]+|[0-9]+\.[0-9]+|[0-9]+)$")


class Tok:
    __slots__ = ("k", "v", "line")

    def __init__(self, k, v, line):
        self.k, self.v, self.line = k, v, line

    def __repr__(self):
        return f"{self.k}:{self.v}@{self.line}"


def tokenize(src):
    toks = []
    i, n, line = 0, len(src), 1
    while i < n:
        c = src[i]
        if c == "\n":
            line += 1
            i += 1
        elif c in " \t\r":
            i += 1
        elif src.startswith("/*", i):
            j = src.find("*/", i + 2)
            if j < 0:
                raise WowmError(f"unterminated comment at line {line}")
            line += src.count("\n", i, j)
            i = j + 2
        elif src.startswith("///", i):
            j = src.find("\n", i)
            if j < 0:
                j = n
            toks.append(Tok("doc", src[i + 3:j].strip(), line))
            i = j
        elif src.startswith("//", i):
            j = src.find("\n", i)
            i = n if j < 0 else j
        elif c == '"':
            j = src.find('"', i + 1)
            if j < 0:
                raise WowmError(f"unterminated string at line {line}")
            toks.append(Tok("str", src[i + 1:j], line))
            line += src.count("\n", i, j)
            i = j + 1
        elif src.startswith("==", i) or src.startswith("!=", i) or src.startswith("||", i):
            toks.append(Tok("p", src[i:i + 2], line))
            i += 2
        elif c == "-" and i + 1 < n and src[i + 1].isdigit():
            m = _WORD.match(src, i + 1)
            toks.append(Tok("num", "-" + m.group(0), line))
            i = m.end()
        elif c in "{}()[];=:,|&#-":
            toks.append(Tok("p", c, line))
            i += 1
        else:
            m = _WORD.match(src, i)
            if not m:
                raise WowmError(f"unexpected character {c!r} at line {line}")
            w = m.group(0)
            toks.append(Tok("num" if _NUM.match(w) else "id", w, line))
            i = m.end()
    return toks


def parse_int_value(text):
    """Value syntaxes of definers: decimal, hex, binary, string ("\\0AB" -> 0x4142, big-endian char packing)."""
    t = text
    if t.startswith("0x"):
        return int(t[2:], 16)
    if t.startswith("0b"):
        return int(t[2:], 2)
    if re.match(r"^-?[0-9]+$", t):
        return int(t)
    raise WowmError(f"not an integer value: {text}")


def string_value(s):
    """STRING = "\\0AB"  ->  0x004142 : bytes in order, most significant first; \\0 is a zero byte."""
    out = 0
    i = 0
    while i < len(s):
        if s.startswith("\\0", i):
            b = 0
            i += 2
        else:
            b = ord(s[i])
            i += 1
        out = (out << 8) | b
    return out


# ----------------------------------------------------------------------------------------------
# AST
# ----------------------------------------------------------------------------------------------
class Definer:
    def __init__(self, kind, name, base, fields, tags, file, line):
        self.kind, self.name, self.base, self.fields, self.tags, self.file, self.line = kind, name, base, fields, tags, file, line
        # fields: list of (name, value:int, raw_text, tags{}, docs[])

    def __repr__(self):
        return f"<{self.kind} {self.name}:{self.base} {self.file}:{self.line}>"


class Decl:
    def __init__(self, ty, name, upcast=None, array=None, value=None, tags=None, docs=None, line=0):
        self.ty, self.name, self.upcast, self.array, self.value = ty, name, upcast, array, value
        self.tags = tags or {}
        self.docs = docs or []
        self.line = line
        # array: None | ("fixed", n) | ("field", name) | ("endless",)

    def __repr__(self):
        a = "" if self.array is None else f"[{self.array}]"
        return f"Decl({self.ty}{a} {self.name})"


class If:
    def __init__(self, arms, else_members, line):
        # arms: [(conds=[(var, op, enumerator)], members)]
        self.arms, self.else_members, self.line = arms, else_members, line

    @property
    def var(self):
        return self.arms[0][0][0][0]


class Optional:
    def __init__(self, name, members, line):
        self.name, self.members, self.line = name, members, line


class Container:
    def __init__(self, kind, name, opcode, members, tags, file, line, unimplemented=False):
        self.kind, self.name, self.opcode, self.members, self.tags, self.file, self.line = kind, name, opcode, members, tags, file, line
        self.unimplemented = unimplemented

    def __repr__(self):
        return f"<{self.kind} {self.name} {self.file}:{self.line}>"


class Test:
    def __init__(self, name, fields, raw, tags, file, line):
        self.name, self.fields, self.raw, self.tags, self.file, self.line = name, fields, raw, tags, file, line


BASIC_INT = {
    "u8": (1, False), "u16": (2, False), "u32": (4, False), "u64": (8, False), "u48": (6, False),
    "i8": (1, True), "i16": (2, True), "i32": (4, True), "i64": (8, True),
}


class Parser:
    def __init__(self, src, file):
        self.t = tokenize(src)
        self.i = 0
        self.file = file

    def peek(self, k=0):
        return self.t[self.i + k] if self.i + k < len(self.t) else Tok("eof", "", -1)

    def next(self):
        t = self.peek()
        self.i += 1
        return t

    def expect(self, k, v=None):
        t = self.next()
        if t.k != k or (v is not None and t.v != v):
            raise WowmError(f"{self.file}:{t.line}: expected {k} {v!r}, got {t.k} {t.v!r}")
        return t

    def at(self, k, v=None):
        t = self.peek()
        return t.k == k and (v is None or t.v == v)

    def docs(self):
        d = []
        while self.at("doc"):
            d.append(self.next().v)
        return d

    def ident(self):
        t = self.next()
        if t.k not in ("id", "num"):
            raise WowmError(f"{self.file}:{t.line}: expected identifier, got {t.k} {t.v!r}")
        return t.v

    def tags_block(self):
        tags = {}
        self.expect("p", "{")
        while not self.at("p", "}"):
            k = self.ident()
            self.expect("p", "=")
            v = self.expect("str").v
            self.expect("p", ";")
            tags.setdefault(k, []).append(v)
        self.expect("p", "}")
        return tags

    def value(self):
        t = self.next()
        if t.k == "str":
            return ("str", t.v)
        if t.k in ("num", "id"):
            return (t.k, t.v)
        raise WowmError(f"{self.file}:{t.line}: expected value, got {t.k} {t.v!r}")

    def parse_file(self):
        commands = []
        objs = []
        while self.at("p", "#"):
            self.next()
            cmd = self.ident()
            name = self.ident()
            val = self.expect("str").v
            self.expect("p", ";")
            commands.append((cmd, name, val))
        while not self.at("eof"):
            docs = self.docs()
            if self.at("eof"):
                break
            t = self.peek()
            if t.k == "p" and t.v == "#":
                raise WowmError(f"{self.file}:{t.line}: command after statement")
            if t.k != "id":
                raise WowmError(f"{self.file}:{t.line}: expected statement keyword, got {t.v!r}")
            if t.v in ("enum", "flag"):
                o = self.definer()
            elif t.v in ("struct", "clogin", "slogin", "msg", "smsg", "cmsg"):
                o = self.container()
            elif t.v == "test":
                o = self.test()
            else:
                raise WowmError(f"{self.file}:{t.line}: unknown statement keyword {t.v!r}")
            if docs:
                o.tags.setdefault("comment", [])[0:0] = docs
            objs.append(o)
        for o in objs:
            for cmd, name, val in commands:
                if cmd == "tag_all":
                    o.tags.setdefault(name, []).append(val)
        return objs

    def definer(self):
        kw = self.next()
        name = self.ident()
        self.expect("p", ":")
        base = self.ident()
        self.expect("p", "{")
        fields = []
        while not self.at("p", "}"):
            docs = self.docs()
            fname = self.ident()
            self.expect("p", "=")
            vk, vv = self.value()
            tags = {}
            if self.at("p", "{"):
                tags = self.tags_block()
            else:
                self.expect("p", ";")
            if vk == "str":
                val = string_value(vv)
            elif vk == "num":
                val = parse_int_value(vv)
            else:
                raise WowmError(f"{self.file}:{kw.line}: enumerator {fname} has non-numeric value {vv}")
            fields.append((fname, val, vv, tags, docs))
        self.expect("p", "}")
        tags = self.tags_block() if self.at("p", "{") else {}
        return Definer(kw.v, name, base, fields, tags, self.file, kw.line)

    def members(self):
        ms = []
        unimpl = False
        while not self.at("p", "}"):
            docs = self.docs()
            t = self.peek()
            if t.k == "id" and t.v == "if" and self.peek(1).k == "p" and self.peek(1).v == "(":
                ms.append(self.if_statement())
            elif t.k == "id" and t.v == "optional" and self.peek(2).k == "p" and self.peek(2).v == "{":
                self.next()
                name = self.ident()
                self.expect("p", "{")
                inner, u = self.members()
                self.expect("p", "}")
                if self.at("p", "{") and self.peek(1).k == "id" and self.peek(2).v == "=" and self.peek(3).k == "str":
                    self.tags_block()
                ms.append(Optional(name, inner, t.line))
            elif t.k == "id" and t.v == "unimplemented":
                self.next()
                unimpl = True
            else:
                ms.append(self.decl(docs))
        return ms, unimpl

    def cond(self):
        var = self.ident()
        op = self.next()
        if op.v not in ("==", "&", "!="):
            raise WowmError(f"{self.file}:{op.line}: bad operator {op.v!r}")
        val = self.ident()
        return (var, op.v, val)

    def if_statement(self):
        kw = self.next()
        arms = []

        def arm():
            self.expect("p", "(")
            conds = [self.cond()]
            while self.at("p", "||"):
                self.next()
                conds.append(self.cond())
            self.expect("p", ")")
            self.expect("p", "{")
            ms, _ = self.members()
            self.expect("p", "}")
            arms.append((conds, ms))

        arm()
        else_members = None
        while self.at("id", "else"):
            self.next()
            if self.at("id", "if"):
                self.next()
                arm()
            else:
                self.expect("p", "{")
                else_members, _ = self.members()
                self.expect("p", "}")
                break
        return If(arms, else_members, kw.line)

    def decl(self, docs):
        line = self.peek().line
        upcast = None
        if self.at("p", "("):
            self.next()
            upcast = self.ident()
            self.expect("p", ")")
        ty = self.ident()
        array = None
        if self.at("p", "["):
            self.next()
            if self.at("p", "-"):
                self.next()
                array = ("endless",)
            else:
                t = self.next()
                if t.k == "num":
                    array = ("fixed", parse_int_value(t.v))
                elif t.k == "id":
                    array = ("field", t.v)
                else:
                    raise WowmError(f"{self.file}:{t.line}: bad array length {t.v!r}")
            self.expect("p", "]")
        name = self.ident()
        value = None
        if self.at("p", "="):
            self.next()
            value = self.value()
        tags = {}
        if self.at("p", "{"):
            tags = self.tags_block()
        else:
            self.expect("p", ";")
        return Decl(ty, name, upcast, array, value, tags, docs, line)

    def container(self):
        kw = self.next()
        name = self.ident()
        opcode = None
        if self.at("p", "="):
            self.next()
            vk, vv = self.value()
            opcode = parse_int_value(vv) if vk == "num" else string_value(vv)
        self.expect("p", "{")
        ms, unimpl = self.members()
        self.expect("p", "}")
        tags = self.tags_block() if self.at("p", "{") else {}
        return Container(kw.v, name, opcode, ms, tags, self.file, kw.line, unimpl)

    def test_value(self):
        if self.at("p", "["):
            self.next()
            items = []
            while not self.at("p", "]"):
                items.append(self.test_value())
                if self.at("p", ","):
                    self.next()
            self.expect("p", "]")
            return ("array", items)
        if self.at("p", "{"):
            self.next()
            fields = self.test_fields()
            self.expect("p", "}")
            return ("object", fields)
        vals = [self.value()]
        while self.at("p", "|"):
            self.next()
            vals.append(self.value())
        return ("scalar", vals)

    def test_fields(self):
        fields = []
        while not self.at("p", "}"):
            name = self.ident()
            self.expect("p", "=")
            v = self.test_value()
            if self.at("p", "{"):
                self.tags_block()
            else:
                self.expect("p", ";")
            fields.append((name, v))
        return fields

    def test(self):
        kw = self.next()
        name = self.ident()
        self.expect("p", "{")
        fields = self.test_fields()
        self.expect("p", "}")
        self.expect("p", "[")
        raw = []
        while not self.at("p", "]"):
            vk, vv = self.value()
            raw.append(parse_int_value(vv) if vk == "num" else string_value(vv))
            if self.at("p", ","):
                self.next()
        self.expect("p", "]")
        tags = self.tags_block() if self.at("p", "{") else {}
        return Test(name, fields, raw, tags, self.file, kw.line)


# ----------------------------------------------------------------------------------------------
# versions
# ----------------------------------------------------------------------------------------------
def parse_world_version(s):
    if s == "*":
        return ("*",)
    parts = s.split(".")
    if not 1 <= len(parts) <= 4 or not all(p.isdigit() for p in parts):
        raise WowmError(f"bad world version {s!r}")
    return tuple(int(p) for p in parts)


def world_covers(w, v):
    """w covers v: w is `*` or a prefix of v (as specific or less specific)."""
    if w == ("*",):
        return True
    if v == ("*",):
        return False
    return len(w) <= len(v) and v[:len(w)] == w


def world_overlaps(a, b):
    return world_covers(a, b) or world_covers(b, a)


def login_covers(w, v):
    return w == "*" or w == v


EXPANSIONS = {"vanilla": (1, 12), "tbc": (2, 4, 3, 8606), "wrath": (3, 3, 5, 12340)}
LOGIN_VERSIONS = [2, 3, 5, 6, 7, 8]


class Obj:
    """A version-expanded object (paste_versions already split)."""

    def __init__(self, ast, world_versions, login_versions):
        self.ast = ast
        self.name = ast.name
        self.world_versions = world_versions  # list of tuples
        self.login_versions = login_versions  # list of int or "*"

    @property
    def is_world(self):
        return bool(self.world_versions)

    def covers_world(self, v):
        return any(world_covers(w, v) for w in self.world_versions)

    def covers_login(self, v):
        return any(login_covers(w, v) for w in self.login_versions)

    def __repr__(self):
        return f"Obj({self.ast!r} w={self.world_versions} l={self.login_versions})"


class Model:
    def __init__(self, root=None):
        self.root = root or WOWM_DIR
        self.files = []
        self.objects = []  # Obj
        self.tests = []
        self.counts = {"files": 0, "enum": 0, "flag": 0, "struct": 0, "message": 0, "test": 0}
        self.by_name = {}
        self._load()

    def _load(self):
        for dp, dns, fns in os.walk(self.root):
            dns.sort()
            for fn in sorted(fns):
                if not fn.endswith(".wowm"):
                    continue
                p = os.path.join(dp, fn)
                rel = os.path.relpath(p, REPO)
                with open(p, encoding="utf-8") as fh:
                    src = fh.read()
                self.files.append(rel)
                self.counts["files"] += 1
                for o in Parser(src, rel).parse_file():
                    if isinstance(o, Test):
                        self.tests.append(o)
                        self.counts["test"] += 1
                        continue
                    if isinstance(o, Definer):
                        self.counts[o.kind] += 1
                    elif o.kind == "struct":
                        self.counts["struct"] += 1
                    else:
                        self.counts["message"] += 1
                    for ob in self._expand(o):
                        self.objects.append(ob)
                        self.by_name.setdefault(ob.name, []).append(ob)

    @staticmethod
    def _expand(o):
        tags = o.tags
        vs = []
        for s in tags.get("versions", []):
            vs += s.split()
        pv = []
        for s in tags.get("paste_versions", []):
            pv += s.split()
        lv = []
        for s in tags.get("login_versions", []):
            lv += s.split()
        if "*" in vs:
            vs = ["*"]
        if "*" in lv:
            lv = ["*"]
        wv = [parse_world_version(v) for v in vs]
        lvs = ["*" if v == "*" else int(v) for v in lv]
        out = []
        if pv:
            for v in pv:
                out.append(Obj(o, [parse_world_version(v)], []))
            if wv or lvs:
                out.append(Obj(o, wv, lvs))
        else:
            out.append(Obj(o, wv, lvs))
        return out

    # ---- lookup -----------------------------------------------------------------------------
    def lookup_world(self, name, version):
        c = [o for o in self.by_name.get(name, []) if o.is_world and o.covers_world(version)]
        if len(c) > 1:
            raise WowmError(f"ambiguous {name} for {version}: {c}")
        return c[0] if c else None

    def lookup_login(self, name, version):
        c = [o for o in self.by_name.get(name, []) if o.login_versions and o.covers_login(version)]
        if len(c) > 1:
            raise WowmError(f"ambiguous {name} for login {version}: {c}")
        return c[0] if c else None

    def world_objects(self, expansion):
        v = EXPANSIONS[expansion]
        return [o for o in self.objects if o.is_world and o.covers_world(v)]

    def login_objects(self, version):
        return [o for o in self.objects if o.login_versions and o.covers_login(version)]


# ----------------------------------------------------------------------------------------------
# reference layouts (the common layout IR, see DESIGN.md §2)
# ----------------------------------------------------------------------------------------------
# leaf table written from wowm_language/src/spec/lang-spec.md "Built-in Types"
LEAF = {
    "u8": ("int", 1, "le", False), "u16": ("int", 2, "le", False), "u32": ("int", 4, "le", False),
    "u64": ("int", 8, "le", False), "i8": ("int", 1, "le", True), "i16": ("int", 2, "le", True),
    "i32": ("int", 4, "le", True), "i64": ("int", 8, "le", True),
    "u16_be": ("int", 2, "be", False), "u32_be": ("int", 4, "be", False), "u64_be": ("int", 8, "be", False),
    "f32": ("float", 4, "le"),
    "Bool": ("bool", 1), "Bool32": ("bool", 4),
    "Guid": ("guid",), "PackedGuid": ("packedguid",),
    "CString": ("cstring",), "SizedCString": ("sizedcstring",), "String": ("string",),
    "DateTime": ("datetime",), "IpAddress": ("int", 4, "be", False),
    "Gold": ("int", 4, "le", False), "Spell": ("int", 4, "le", False), "Item": ("int", 4, "le", False),
    "Seconds": ("int", 4, "le", False), "Milliseconds": ("int", 4, "le", False),
    "Level": ("int", 1, "le", False), "Level16": ("int", 2, "le", False), "Level32": ("int", 4, "le", False),
    "Spell16": ("int", 2, "le", False), "Population": ("float", 4, "le"),
}
BUILTIN_COMPLEX = {
    "UpdateMask", "AuraMask", "MonsterMoveSplines", "AchievementDoneArray", "AchievementInProgressArray",
    "EnchantMask", "InspectTalentGearMask", "NamedGuid", "VariableItemRandomProperty", "AddonArray", "CacheMask",
}
# semantic wrapper kinds (used to check the value wrappers, not the bytes)
SEMANTIC = {"Gold", "Spell", "Item", "Seconds", "Milliseconds", "Level", "Level16", "Level32", "Spell16", "Population",
            "IpAddress", "DateTime"}


class RefItem(dict):
    pass


class RefLayouts:
    """Reference layout of a container in a scope.  lookup(name) resolves user types for that scope."""

    def __init__(self, model, lookup):
        self.model = model
        self.lookup = lookup  # name -> Obj or None

    def type_item(self, d, ty, upcast):
        if ty in LEAF:
            it = {"k": LEAF[ty][0], "leaf": LEAF[ty], "wty": ty}
            return it
        if ty in BUILTIN_COMPLEX:
            return {"k": "builtin", "bname": ty, "wty": ty}
        o = self.lookup(ty)
        if o is None:
            raise WowmError(f"{d.line}: unknown type {ty}")
        a = o.ast
        if isinstance(a, Definer):
            wire = upcast or a.base
            return {"k": a.kind, "obj": o, "wire": wire, "base": a.base, "wty": ty}
        return {"k": "struct", "obj": o, "wty": ty}

    def members(self, ms, decls):
        """-> list of items.  `decls` maps field name -> item (for if variables and array counts)."""
        out = []
        for m in ms:
            if isinstance(m, Decl):
                if m.array is not None:
                    elem = self.type_item(m, m.ty, None)
                    it = {"k": "array", "count": m.array, "elem": elem, "compressed": "true" in m.tags.get("compressed", []),
                          "name": m.name, "line": m.line}
                else:
                    it = self.type_item(m, m.ty, m.upcast)
                    it["name"] = m.name
                    it["line"] = m.line
                    if m.value is not None:
                        if m.value[1] == "self.size":
                            it["selfsize"] = True
                        else:
                            it["const"] = m.value
                    if "maximum_length" in m.tags:
                        it["maximum_length"] = int(m.tags["maximum_length"][0])
                decls[m.name] = it
                out.append(it)
            elif isinstance(m, If):
                var = m.var
                vit = decls.get(var)
                if vit is None:
                    raise WowmError(f"if on undeclared variable {var}")
                for conds, _ in m.arms:
                    for (v, op, en) in conds:
                        if v != var:
                            raise WowmError(f"if statement mixes variables {var} and {v}")
                definer = vit["obj"].ast
                if vit["k"] == "enum":
                    table = {}
                    arms = [(conds, self.members(ams, decls)) for conds, ams in m.arms]
                    els = self.members(m.else_members, decls) if m.else_members is not None else []
                    for (en, val, *_r) in definer.fields:
                        chosen = None
                        for conds, items in arms:
                            hit = False
                            for (_v, op, e2) in conds:
                                if op == "==" and e2 == en:
                                    hit = True
                                elif op == "!=" and e2 != en:
                                    hit = True
                                elif op == "&":
                                    raise WowmError("& on enum")
                            if hit:
                                chosen = items
                                break
                        table[en] = chosen if chosen is not None else els
                    out.append({"k": "switch", "var": var, "table": table, "line": m.line})
                elif vit["k"] == "flag":
                    arms = []
                    for conds, ams in m.arms:
                        ens = []
                        for (_v, op, e2) in conds:
                            if op != "&":
                                raise WowmError("==/!= on flag")
                            ens.append(e2)
                        arms.append((ens, self.members(ams, decls)))
                    els = self.members(m.else_members, decls) if m.else_members is not None else []
                    out.append({"k": "flagif", "var": var, "arms": arms, "else": els, "line": m.line})
                else:
                    raise WowmError(f"if on non-definer variable {var}")
            elif isinstance(m, Optional):
                out.append({"k": "optional", "name": m.name, "items": self.members(m.members, decls), "line": m.line})
        return out

    def container(self, c):
        decls = {}
        items = self.members(c.members, decls)
        if "true" in c.tags.get("compressed", []):
            items = [{"k": "int", "leaf": LEAF["u32"], "wty": "u32", "name": "decompressed_size", "synthetic": True},
                     {"k": "zlib", "items": items}]
        return items


# ----------------------------------------------------------------------------------------------
# size intervals (C09): independent interval arithmetic over the reference layout
# ----------------------------------------------------------------------------------------------
INF = float("inf")
# The codec's own definition of its leaf domains (frozen; cross-checked against the generator's and the
# runtime's constants by rule leaf.limits).  (min, max) in bytes.
LEAF_LIMITS = {
    "cstring": (1, 256), "sizedcstring": (5, 4 + 8000), "string": (1, 257), "packedguid": (1, 9), "guid": (8, 8), "datetime": (4, 4),
}
BUILTIN_LIMITS = {
    "AuraMask": (4, 4 + 32 * 4), "EnchantMask": (2, 2 + 16 * 2), "NamedGuid": (8, 8008), "VariableItemRandomProperty": (4, 8),
    "CacheMask": (4, 4 + 32 * 4), "MonsterMoveSplines": (4, INF), "AchievementDoneArray": (0, INF), "AchievementInProgressArray": (0, INF),
    "AddonArray": (0, INF), "UpdateMask": (1, INF), "InspectTalentGearMask": (4, INF),
}
INT_RANGE_MAX = {"u8": 0xFF, "u16": 0xFFFF, "u32": 0xFFFFFFFF, "u64": (1 << 64) - 1, "i32": 0x7FFFFFFF, "i8": 0x7F, "i16": 0x7FFF, "i64": (1 << 63) - 1}


class SizeCalc:
    def __init__(self, reflayouts, endless_cap):
        self.rl = reflayouts
        self.cap = endless_cap
        self._structs = {}

    def item(self, it, decls):
        k = it["k"]
        if k in ("int", "float", "bool"):
            w = it["leaf"][1]
            return (w, w)
        if k in LEAF_LIMITS:
            return LEAF_LIMITS[k]
        if k == "builtin":
            # (limits measured from the hand-written type of the expansion, when the caller supplies them, take precedence over the table)
            return getattr(self, "builtin_limits", {}).get(it["bname"]) or BUILTIN_LIMITS[it["bname"]]
        if k in ("enum", "flag"):
            w = BASIC_INT[it["wire"]][0]
            return (w, w)
        if k == "struct":
            return self.container(it["obj"].ast)
        if k == "array":
            emin, emax = self.item(it["elem"], decls)
            c = it["count"]
            extra = 4 + 8 if it.get("compressed") else 0
            if c[0] == "fixed":
                return (emin * c[1] + extra, emax * c[1] + extra)
            if c[0] == "field":
                cd = decls.get(c[1])
                mx = INT_RANGE_MAX.get(cd["wty"], INF) if cd else INF
                return (extra, emax * mx + extra)
            return (extra, INF)
        if k == "switch":
            lo, hi = INF, 0
            for en, sub in it["table"].items():
                a, b = self.seq(sub, decls)
                lo, hi = min(lo, a), max(hi, b)
            return (lo, hi)
        if k == "flagif":
            # any subset of flags: each chain contributes between 0 (no bit set -> else) and the largest arm
            lo, hi = self.seq(it["else"], decls)
            for ens, sub in it["arms"]:
                a, b = self.seq(sub, decls)
                lo, hi = min(lo, a), max(hi, b)
            return (lo, hi)
        if k == "optional":
            a, b = self.seq(it["items"], decls)
            return (0, b)
        if k == "zlib":
            # any zlib stream is at least 2 (header) + 2 (empty final deflate block) + 4 (adler32) bytes
            return (8, INF)
        raise WowmError(f"size of {k}")

    def seq(self, items, decls):
        lo = hi = 0
        for it in items:
            if it.get("name"):
                decls[it["name"]] = it
            a, b = self.item(it, decls)
            lo += a
            hi += b
        return (lo, hi)

    def container(self, c):
        key = id(c)
        if key not in self._structs:
            items = self.rl.container(c)
            self._structs[key] = self.seq(items, {})
        return self._structs[key]
