"""E2 facts: run the rsfacts driver over /repo's current tree (cached by content hash) and load facts."""
import json
import os
import re
import shutil
import time

from .common import REPO, VERIF, WORK, Lock, ToolError, hash_files, repo_files, run, nightly_sysroot

DRIVER_DIR = os.path.join(VERIF, "tools", "rsfacts")
DRIVER = os.path.join(DRIVER_DIR, "target", "release", "rsfacts")

CRATES = ["wow_login_messages", "wow_world_base", "wow_world_messages", "wow_message_parser"]

# configuration name -> (packages, features)
CONFIGS = {
    "union": (
        CRATES,
        [
            "wow_login_messages/sync", "wow_login_messages/tokio", "wow_login_messages/async-std",
            "wow_world_base/extended", "wow_world_base/shared", "wow_world_base/vanilla", "wow_world_base/tbc",
            "wow_world_base/wrath",
            "wow_world_messages/sync", "wow_world_messages/tokio", "wow_world_messages/async-std",
            "wow_world_messages/vanilla", "wow_world_messages/tbc", "wow_world_messages/wrath",
            "wow_world_messages/encryption",
        ],
    ),
}

SRC_DIRS = [
    "Cargo.toml", "Cargo.lock",
    "wow_login_messages/Cargo.toml", "wow_login_messages/src",
    "wow_world_base/Cargo.toml", "wow_world_base/src",
    "wow_world_messages/Cargo.toml", "wow_world_messages/src",
    "wow_message_parser/Cargo.toml", "wow_message_parser/src",
]


def build_driver():
    with Lock("driver"):
        srcs = [os.path.join(DRIVER_DIR, "src", f) for f in os.listdir(os.path.join(DRIVER_DIR, "src"))]
        if os.path.exists(DRIVER) and all(os.path.getmtime(DRIVER) >= os.path.getmtime(s) for s in srcs):
            return
        p = run(["cargo", "build", "--offline", "--release"], cwd=DRIVER_DIR)
        if p.returncode != 0 or not os.path.exists(DRIVER):
            raise ToolError("rsfacts driver failed to build:\n" + p.stdout[-3000:])


def source_hash(config="union"):
    files = repo_files(SRC_DIRS, exts={".rs", ".toml", ".lock", ".pest"})
    drv = repo_files  # noqa
    dh = hash_files([os.path.join(DRIVER_DIR, "src", f) for f in sorted(os.listdir(os.path.join(DRIVER_DIR, "src")))])
    return hash_files(files, extra=config + dh)


def ensure(config="union"):
    """Return the directory holding <crate>.jsonl for /repo's current tree; (re)run the driver when needed."""
    build_driver()
    h = source_hash(config)
    base = os.path.join(WORK, "facts")
    d = os.path.join(base, f"{config}-{h}")
    stamp = os.path.join(d, "OK")
    if os.path.exists(stamp):
        return d
    with Lock("facts-" + config):
        if os.path.exists(stamp):
            return d
        # prune older caches of this config (keep 2 most recent)
        if os.path.isdir(base):
            olds = sorted(
                (x for x in os.listdir(base) if x.startswith(config + "-")),
                key=lambda x: os.path.getmtime(os.path.join(base, x)),
            )
            for x in olds[:-2]:
                shutil.rmtree(os.path.join(base, x), ignore_errors=True)
        if os.path.isdir(d):
            shutil.rmtree(d)
        os.makedirs(d)
        pkgs, feats = CONFIGS[config]
        tdir = os.path.join(WORK, "target-" + config)
        # cargo's freshness cache would skip the wrapper: drop the members' fingerprints
        fp = os.path.join(tdir, "debug", ".fingerprint")
        if os.path.isdir(fp):
            for x in os.listdir(fp):
                if any(x.startswith(c + "-") for c in CRATES):
                    shutil.rmtree(os.path.join(fp, x), ignore_errors=True)
        env = {
            "LD_LIBRARY_PATH": nightly_sysroot() + "/lib",
            "RUSTFLAGS": "-Zmir-opt-level=0 -Awarnings",
            "RUSTC_WORKSPACE_WRAPPER": DRIVER,
            "CARGO_TARGET_DIR": tdir,
            "RSFACTS_OUT": d,
            "RSFACTS_CRATES": ",".join(pkgs),
        }
        cmd = ["cargo", "+nightly", "check", "--offline"]
        for p in pkgs:
            cmd += ["-p", p]
        cmd += ["--features", ",".join(feats)]
        t0 = time.time()
        p = run(cmd, cwd=REPO, env=env)
        if p.returncode != 0:
            shutil.rmtree(d, ignore_errors=True)
            raise ToolError("cargo check under the facts driver failed (does /repo compile?):\n" + p.stdout[-6000:])
        for c in pkgs:
            if not os.path.exists(os.path.join(d, c + ".jsonl")):
                shutil.rmtree(d, ignore_errors=True)
                raise ToolError(f"driver produced no facts for {c} (stale cargo fingerprint?)\n" + p.stdout[-3000:])
        with open(stamp, "w") as fh:
            fh.write(f"{time.time() - t0:.1f}s\n")
    return d


_STD = re.compile(r"\b(?:core|alloc)::")
_PREFIX = re.compile(r'^\{"k":"(\w+)","(?:path|crate)":"((?:[^"\\]|\\.)*)"')


class Facts:
    """Lazy view over one crate's facts. Records are parsed on first access."""

    def __init__(self, crate, config="union"):
        self.crate = crate
        self.dir = ensure(config)
        self.file = os.path.join(self.dir, crate + ".jsonl")
        self._raw = {"fn": {}, "mir": {}, "adt": {}, "const": {}, "impl": {}, "mod": {}}
        self._parsed = {}
        self.summary = None
        with open(self.file) as fh:
            for line in fh:
                line = _STD.sub("std::", line)
                m = _PREFIX.match(line)
                if not m:
                    raise ToolError("unparseable fact line: " + line[:200])
                k, path = m.group(1), m.group(2)
                if k == "summary":
                    self.summary = json.loads(line)
                    continue
                if "\\" in path:
                    path = json.loads('"' + path + '"')
                self._raw[k].setdefault(path, []).append(line)
        if self.summary is None:
            raise ToolError("facts file without summary: " + self.file)

    def _get(self, k, path):
        key = (k, path)
        if key not in self._parsed:
            lines = self._raw[k].get(path)
            if not lines:
                return None
            self._parsed[key] = [json.loads(l) for l in lines]
        return self._parsed[key]

    def fn(self, path):
        r = self._get("fn", path)
        return r[0] if r else None

    def fns(self, path):
        return self._get("fn", path) or []

    def mir(self, path):
        r = self._get("mir", path)
        return r[0] if r else None

    def adt(self, path):
        r = self._get("adt", path)
        return r[0] if r else None

    def const(self, path):
        r = self._get("const", path)
        return r[0] if r else None

    def paths(self, k):
        return self._raw[k].keys()

    def all(self, k, pred=None):
        for path in list(self._raw[k].keys()):
            if pred is not None and not pred(path):
                continue
            for rec in self._get(k, path):
                yield rec

    def fns_named(self, name):
        suffix = "::" + name
        return self.all("fn", lambda p: p.endswith(suffix))

    def impls(self):
        return self.all("impl")


_cache = {}


def facts(crate, config="union"):
    key = (crate, config)
    if key not in _cache:
        _cache[key] = Facts(crate, config)
    return _cache[key]


# ----------------------------------------------------------------------------------------------
# small helpers on the HIR JSON trees
# ----------------------------------------------------------------------------------------------
def walk(node):
    """Yield every list node (pre-order)."""
    if isinstance(node, list):
        if node and isinstance(node[0], str):
            yield node
        for c in node:
            if isinstance(c, list):
                yield from walk(c)


def unwrap_async(hir):
    """async fn body: closure(Coroutine) -> block([let r = r], real block) -> real block."""
    if isinstance(hir, list) and hir and hir[0] == "closure" and "Coroutine" in hir[1]:
        body = hir[3]
        if body[0] == "block" and body[2] is not None:
            return body[2], body[1]
        return body, []
    return hir, []


def strip_mac(n):
    while isinstance(n, list) and n and n[0] == "mac":
        n = n[2]
    return n
