"""Reader for the generated Wireshark dissector fragments (tests/wireshark/*.txt): a small parser for the C subset the
printer emits, producing one tree of "walk items" per case."""
import re


class WsError(Exception):
    pass


RE_ADD = re.compile(r"^ptvcursor_add\(ptv, (\w+), (\w+), (ENC_\w+)\);$")
RE_ADD_RET = re.compile(r"^ptvcursor_add_ret_uint\(ptv, (\w+), (\w+), (ENC_\w+), &(\w+)\);$")
RE_HELPER = re.compile(r"^(add_cstring|add_sized_cstring|add_string)\(ptv, &(\w+)\);$")
RE_FOR = re.compile(r"^for \(guint32 (i\d+) = 0; \1 < (\w+)(?: && \1 < \(guint32\)(\w+))?(?: && ptvcursor_current_offset\(ptv\) < (offset_packet_end|compression_end))?; \+\+\1\) \{$")
RE_WHILE = re.compile(r"^while \(ptvcursor_current_offset\(ptv\) < (offset_packet_end|compression_end)\) \{$")
REM = "tvb_reported_length_remaining(ptvcursor_tvbuff(ptv), ptvcursor_current_offset(ptv))"  # bytes left in the buffer the cursor walks
RE_LEN = re.compile(r"^len = (offset_packet_end|compression_end|tvb_reported_length\(compressed_tvb\)) - ptvcursor_current_offset\(ptv\);$")
RE_SUBTREE = re.compile(r'^ptvcursor_add_text_with_subtree\(ptv, SUBTREE_UNDEFINED_LENGTH, ett_message, "([^"]*)"(?:, (\w+))?\);$')
RE_CASE = re.compile(r"^case (\w+):$")
RE_COND = re.compile(r"^(\w+) (==|!=|&) (\w+)$")

SIMPLE = {
    "add_packed_guid(ptv, pinfo);": ("packedguid",),
    "add_aura_mask(ptv);": ("builtin", "AuraMask"),
    "add_update_mask(ptv, pinfo);": ("builtin", "UpdateMask"),
    "add_monster_move_spline(ptv);": ("builtin", "MonsterMoveSplines"),
}


class Lines:
    def __init__(self, text):
        self.raw = [l.strip() for l in text.split("\n")]
        self.items = []
        # join condition continuation lines ("|| x == Y") onto the preceding `if (`
        for i, l in enumerate(self.raw):
            if not l:
                continue
            if l.startswith("|| ") and self.items:
                ln, prev = self.items[-1]
                self.items[-1] = (ln, prev + " " + l)
                continue
            # equivalent spellings are brought to one form: `} else {` / `} else if (..) {` on one line; a loop counter declared with the
            # other variables (`for (i1 = 0; ..; i1++)`) instead of in the loop header
            if l.startswith("} else"):
                self.items.append((i + 1, "}"))
                l = l[2:]
            m = re.match(r"^for \((i\d+) = 0; (.*); \1\+\+\) \{$", l)
            if m:
                l = f"for (guint32 {m.group(1)} = 0; {m.group(2)}; ++{m.group(1)}) {{"
            self.items.append((i + 1, l))
        self.pos = 0

    def peek(self):
        return self.items[self.pos] if self.pos < len(self.items) else (None, None)

    def next(self):
        it = self.peek()
        self.pos += 1
        return it


def parse_cond(text, line):
    parts = [p.strip() for p in text.split("||")]
    out = []
    for p in parts:
        if p in ("WOWW_SERVER_TO_CLIENT", "WOW_SERVER_TO_CLIENT"):
            out.append(("dir", "server_to_client"))
            continue
        if p == "len > 0":
            out.append(("len>0",))
            continue
        if p == f"{REM} > 0":
            out.append(("rem>0",))
            continue
        if p == "compressed_tvb != NULL":
            out.append(("zlib-ok",))
            continue
        m = RE_COND.match(p)
        if m and re.fullmatch(r"[A-Z][A-Z0-9_]*", m.group(1)) and not re.fullmatch(r"[A-Z][A-Z0-9_]*", m.group(3)) and m.group(2) in ("==", "!="):
            # `CONSTANT == variable`: the comparison is symmetric
            out.append((m.group(3), m.group(2), m.group(1)))
            continue
        m2 = re.match(r"^\((\w+) & (\w+)\) != 0$", p)
        if m2:
            out.append((m2.group(1), "&", m2.group(2)))  # `(x & FLAG) != 0` is the truth value of `x & FLAG`
            continue
        if not m:
            raise WsError(f"line {line}: unrecognised condition `{p}`")
        out.append((m.group(1), m.group(2), m.group(3)))
    return out


def parse_block(L, until_break=False):
    """parse statements until the closing `}` (consumed) or, for a case body, until `break;` (consumed)."""
    items = []
    depth_subtree = 0
    while True:
        ln, l = L.peek()
        if l is None:
            raise WsError("unexpected end of file")
        if l == "}":
            if until_break:
                raise WsError(f"line {ln}: `}}` inside a case body")
            L.next()
            break
        if l == "break;" and until_break:
            L.next()
            break
        if RE_CASE.match(l) or l == "default:":
            if until_break:
                raise WsError(f"line {ln}: case falls through without break")
        L.next()
        m = RE_ADD.match(l)
        if m:
            items.append({"k": "add", "hf": m.group(1), "len": int(m.group(2)) if m.group(2).isdigit() else m.group(2), "enc": m.group(3), "line": ln})
            continue
        m = RE_ADD_RET.match(l)
        if m:
            items.append({"k": "add", "hf": m.group(1), "len": int(m.group(2)) if m.group(2).isdigit() else m.group(2), "enc": m.group(3), "ret": m.group(4), "line": ln})
            continue
        m = RE_HELPER.match(l)
        if m:
            items.append({"k": {"add_cstring": "cstring", "add_sized_cstring": "sizedcstring", "add_string": "string"}[m.group(1)], "hf": m.group(2), "line": ln})
            continue
        if l in SIMPLE:
            s = SIMPLE[l]
            items.append({"k": s[0], "bname": s[1] if len(s) > 1 else None, "line": ln})
            continue
        m = RE_SUBTREE.match(l)
        if m:
            depth_subtree += 1
            items.append({"k": "push", "name": m.group(1), "line": ln})
            continue
        if l == "ptvcursor_pop_subtree(ptv);":
            depth_subtree -= 1
            if depth_subtree < 0:
                raise WsError(f"line {ln}: pop_subtree without push in this block")
            items.append({"k": "pop", "line": ln})
            continue
        m = RE_FOR.match(l)
        if m:
            body = parse_block(L)
            items.append({"k": "for", "count": int(m.group(2)) if m.group(2).isdigit() else m.group(2), "items": body, "line": ln, "extra_bound": m.group(3), "cursor_bound": m.group(4)})
            continue
        m = RE_WHILE.match(l)
        if m:
            body = parse_block(L)
            items.append({"k": "while", "end": m.group(1), "items": body, "line": ln})
            continue
        m = RE_LEN.match(l)
        if m or l == f"len = {REM};":
            # which end the remaining length is measured to: the message's (offset_packet_end), the decompressed buffer's, or the end of
            # whatever buffer the cursor walks (which for an uncompressed message may hold further messages)
            end = "buffer_end" if not m else ("offset_packet_end" if m.group(1) == "offset_packet_end" else "compression_end")
            items.append({"k": "len=", "end": end, "line": ln})
            continue
        if l == f"while ({REM} > 0) {{":
            body = parse_block(L)
            items.append({"k": "while", "end": "buffer_end", "items": body, "line": ln})
            continue
        if l.startswith("if (") and l.endswith(") {"):
            arms = [(parse_cond(l[4:-3], ln), parse_block(L))]
            els = None
            while True:
                ln2, l2 = L.peek()
                if l2 is not None and l2.startswith("else if (") and l2.endswith(") {"):
                    L.next()
                    arms.append((parse_cond(l2[9:-3], ln2), parse_block(L)))
                elif l2 == "else {":
                    L.next()
                    els = parse_block(L)
                    break
                else:
                    break
            items.append({"k": "if", "arms": arms, "else": els, "line": ln})
            continue
        if l.startswith("compressed_tvb = tvb_uncompress("):
            items.append({"k": "uncompress", "line": ln})
            continue
        if l in ("ptvcursor_t* old_ptv = ptv;", "ptvcursor_free(ptv);", "ptv = old_ptv;", "compressed_tvb = NULL;",
                 "gint compression_end = tvb_reported_length(compressed_tvb);") or l.startswith("ptv = ptvcursor_new(wmem_packet_scope(), tree, compressed_tvb, 0);"):
            items.append({"k": "zlib-plumbing", "text": l, "line": ln})
            continue
        if l.startswith("switch (*protocol_version) {"):
            versions = {}
            while True:
                ln2, l2 = L.next()
                if l2 == "}":
                    break
                labels = []
                while l2 is not None and re.match(r"^case (\d+):$", l2):
                    labels.append(int(re.match(r"^case (\d+):$", l2).group(1)))
                    ln2, l2 = L.next()
                if not labels:
                    raise WsError(f"line {ln2}: expected `case N:` in protocol switch, got `{l2}`")
                L.pos -= 1
                body = parse_block(L, until_break=True)
                for v in labels:
                    if v in versions:
                        raise WsError(f"line {ln2}: protocol version {v} handled twice")
                    versions[v] = body
            items.append({"k": "protocol", "versions": versions, "line": ln})
            continue
        raise WsError(f"line {ln}: unrecognised statement `{l}`")
    if depth_subtree != 0:
        raise WsError(f"subtree push/pop unbalanced in block ending at line {ln}")
    return items


def parse_parser_txt(text):
    """-> list of switches; each is dict label -> (line, items). Several labels may share one body."""
    L = Lines(text)
    switches = []
    while True:
        ln, l = L.next()
        if l is None:
            break
        if l.startswith("switch (header_opcode) {"):
            cases = {}
            while True:
                ln2, l2 = L.next()
                if l2 is None:
                    raise WsError("unterminated switch")
                if l2 == "}":
                    break
                if l2 == "default:":
                    ln3, l3 = L.next()
                    if l3 != "break;":
                        raise WsError(f"line {ln3}: default: is not empty")
                    continue
                labels = []
                while l2 is not None and RE_CASE.match(l2):
                    labels.append(RE_CASE.match(l2).group(1))
                    ln2, l2 = L.next()
                if not labels:
                    raise WsError(f"line {ln2}: expected case label, got `{l2}`")
                L.pos -= 1
                body = parse_block(L, until_break=True)
                for lab in labels:
                    if lab in cases:
                        raise WsError(f"case {lab} appears twice")
                    cases[lab] = (ln2, body)
            switches.append(cases)
        else:
            raise WsError(f"line {ln}: unexpected top-level text `{l}`")
    return switches


def parse_enums(text):
    """-> {CONST: value}"""
    out = {}
    for m in re.finditer(r"^\s+([A-Z][A-Z0-9_]*) = (-?0x[0-9A-Fa-f]+|-?\d+),$", text, re.M):
        v = int(m.group(2), 0)
        if m.group(1) in out and out[m.group(1)] != v:
            raise WsError(f"enumerator {m.group(1)} defined twice with different values")
        out[m.group(1)] = v
    return out


def parse_imports(text):
    return set(re.findall(r"^static int (hf_\w+);$", text, re.M))


def parse_register(text):
    return set(re.findall(r"\{ &(hf_\w+),", text))


def parse_variables(text):
    return set(re.findall(r"^\s*guint32 (\w+) = 0;$", text, re.M))
